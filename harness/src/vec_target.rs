//! Uniform access to the mutators of `ObservableVector` and `ObservableVectorTransaction`,
//! and the resolved (concrete-index) operation type shared by library and model.

use eyeball_im::{
    ObservableVector, ObservableVectorEntry, ObservableVectorTransaction, ObservableVectorTransactionEntry,
};
use imbl::Vector;

use crate::val::{MVal, Val};

/// Resolved per-visit action (values already carry their identity).
#[derive(Clone, Copy, Debug)]
pub enum Act {
    Keep,
    Set(MVal),
    Remove,
    SetRemove(MVal),
    Stop,
}

/// What a traversal observed at one visit.
#[derive(Clone, Debug, PartialEq)]
pub struct Visit {
    pub index: usize,
    pub value: MVal,
    pub set_ret: Option<MVal>,
    pub index_after_set: Option<usize>,
    pub rem_ret: Option<MVal>,
}

/// Operation with concrete indices and values.
#[derive(Clone, Debug)]
pub enum RVOp {
    Append(Vec<MVal>),
    Clear,
    PushFront(MVal),
    PushBack(MVal),
    PopFront,
    PopBack,
    Insert(usize, MVal),
    Set(usize, MVal),
    Remove(usize),
    Truncate(usize),
    EntrySet(usize, MVal),
    EntryRemove(usize),
    Traverse { entries: bool, acts: Vec<Act> },
    OobInsert(usize, MVal),
    OobSet(usize, MVal),
    OobRemove(usize),
    OobEntry(usize),
    /// not applicable in the current state (e.g. set on an empty vector): nothing is called
    Skip,
}

pub trait Target {
    fn contents(&self) -> Vec<MVal>;
    fn t_append(&mut self, v: Vector<Val>);
    fn t_clear(&mut self);
    fn t_push_front(&mut self, v: Val);
    fn t_push_back(&mut self, v: Val);
    fn t_pop_front(&mut self) -> Option<Val>;
    fn t_pop_back(&mut self) -> Option<Val>;
    fn t_insert(&mut self, i: usize, v: Val);
    fn t_set(&mut self, i: usize, v: Val) -> Val;
    fn t_remove(&mut self, i: usize) -> Val;
    fn t_truncate(&mut self, n: usize);
    fn t_entry_set(&mut self, i: usize, v: Val) -> (usize, MVal, Val);
    fn t_entry_remove(&mut self, i: usize) -> (usize, MVal, Val);
    fn t_entry_probe(&mut self, i: usize);
    fn t_traverse(&mut self, entries: bool, acts: &[Act]) -> Vec<Visit>;
}

macro_rules! impl_target {
    ($ty:ty, $entry:ident) => {
        impl Target for $ty {
            fn contents(&self) -> Vec<MVal> {
                self.iter().map(|v| v.m()).collect()
            }
            fn t_append(&mut self, v: Vector<Val>) {
                self.append(v)
            }
            fn t_clear(&mut self) {
                self.clear()
            }
            fn t_push_front(&mut self, v: Val) {
                self.push_front(v)
            }
            fn t_push_back(&mut self, v: Val) {
                self.push_back(v)
            }
            fn t_pop_front(&mut self) -> Option<Val> {
                self.pop_front()
            }
            fn t_pop_back(&mut self) -> Option<Val> {
                self.pop_back()
            }
            fn t_insert(&mut self, i: usize, v: Val) {
                self.insert(i, v)
            }
            fn t_set(&mut self, i: usize, v: Val) -> Val {
                self.set(i, v)
            }
            fn t_remove(&mut self, i: usize) -> Val {
                self.remove(i)
            }
            fn t_truncate(&mut self, n: usize) {
                self.truncate(n)
            }
            fn t_entry_set(&mut self, i: usize, v: Val) -> (usize, MVal, Val) {
                let mut e = self.entry(i);
                let idx = $entry::index(&e);
                let cur = (*e).m();
                let old = $entry::set(&mut e, v);
                (idx, cur, old)
            }
            fn t_entry_remove(&mut self, i: usize) -> (usize, MVal, Val) {
                let e = self.entry(i);
                let idx = $entry::index(&e);
                let cur = (*e).m();
                let old = $entry::remove(e);
                (idx, cur, old)
            }
            fn t_entry_probe(&mut self, i: usize) {
                let _e = self.entry(i);
            }
            fn t_traverse(&mut self, entries: bool, acts: &[Act]) -> Vec<Visit> {
                let mut log = Vec::new();
                let mut n = 0usize;
                if entries {
                    let mut es = self.entries();
                    while let Some(mut e) = es.next() {
                        let act = acts.get(n).copied().unwrap_or(Act::Keep);
                        n += 1;
                        let mut v = Visit { index: $entry::index(&e), value: (*e).m(), set_ret: None, index_after_set: None, rem_ret: None };
                        match act {
                            Act::Keep => {}
                            Act::Set(m) => {
                                v.set_ret = Some($entry::set(&mut e, Val::from_m(m)).m());
                                v.index_after_set = Some($entry::index(&e));
                            }
                            Act::Remove => v.rem_ret = Some($entry::remove(e).m()),
                            Act::SetRemove(m) => {
                                v.set_ret = Some($entry::set(&mut e, Val::from_m(m)).m());
                                v.index_after_set = Some($entry::index(&e));
                                v.rem_ret = Some($entry::remove(e).m());
                            }
                            Act::Stop => {
                                log.push(v);
                                break;
                            }
                        }
                        log.push(v);
                    }
                } else {
                    self.for_each(|mut e| {
                        let act = acts.get(n).copied().unwrap_or(Act::Keep);
                        n += 1;
                        let mut v = Visit { index: $entry::index(&e), value: (*e).m(), set_ret: None, index_after_set: None, rem_ret: None };
                        match act {
                            Act::Keep | Act::Stop => {}
                            Act::Set(m) => {
                                v.set_ret = Some($entry::set(&mut e, Val::from_m(m)).m());
                                v.index_after_set = Some($entry::index(&e));
                            }
                            Act::Remove => v.rem_ret = Some($entry::remove(e).m()),
                            Act::SetRemove(m) => {
                                v.set_ret = Some($entry::set(&mut e, Val::from_m(m)).m());
                                v.index_after_set = Some($entry::index(&e));
                                v.rem_ret = Some($entry::remove(e).m());
                            }
                        }
                        log.push(v);
                    });
                }
                log
            }
        }
    };
}

impl_target!(ObservableVector<Val>, ObservableVectorEntry);
impl_target!(ObservableVectorTransaction<'_, Val>, ObservableVectorTransactionEntry);

/// Reference traversal on a plain Vec: returns the expected visit log and the number of
/// effective sub-operations (each is one diff).
pub fn model_traverse(model: &mut Vec<MVal>, entries: bool, acts: &[Act]) -> (Vec<Visit>, usize) {
    let mut log = Vec::new();
    let mut cursor = 0usize;
    let mut n = 0usize;
    let mut eff = 0usize;
    while cursor < model.len() {
        let act = acts.get(n).copied().unwrap_or(Act::Keep);
        n += 1;
        let mut v = Visit { index: cursor, value: model[cursor], set_ret: None, index_after_set: None, rem_ret: None };
        match act {
            Act::Keep => cursor += 1,
            Act::Stop => {
                if entries {
                    log.push(v);
                    break;
                }
                cursor += 1;
            }
            Act::Set(m) => {
                v.set_ret = Some(std::mem::replace(&mut model[cursor], m));
                v.index_after_set = Some(cursor);
                eff += 1;
                cursor += 1;
            }
            Act::Remove => {
                v.rem_ret = Some(model.remove(cursor));
                eff += 1;
            }
            Act::SetRemove(m) => {
                v.set_ret = Some(std::mem::replace(&mut model[cursor], m));
                v.index_after_set = Some(cursor);
                v.rem_ret = Some(model.remove(cursor));
                eff += 2;
            }
        }
        log.push(v);
    }
    (log, eff)
}
