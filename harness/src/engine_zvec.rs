//! Engine A2: `ObservableVector<()>` - elements of a zero-sized type. Items are indistinguishable,
//! so the oracle is about lengths, applicability of every diff and ends of streams: the replica
//! of a raw subscriber (plain or batched) has the vector's length at every Pending, a Head / Tail /
//! Skip / Filter / Sort view has the length the plain model predicts (C05, C09, C10, C11), and
//! every stream ends when the vector is dropped (C08). A shortcut keyed on the element's size, or
//! on "the element did not change", shows here and nowhere else.

use std::{
    pin::Pin,
    task::{Context, Poll},
};

use eyeball_im::{ObservableVector, VectorDiff};
use eyeball_im_util::vector::{VectorObserverExt, VectorSubscriberExt};
use futures_core::Stream;
use imbl::Vector;
use proptest::prelude::*;
use serde::{Deserialize, Serialize};

use crate::{
    campaign::CaseReport,
    common::{flag_waker, Flag, Prop, Stop, R},
};

#[derive(Clone, Copy, Debug, Serialize, Deserialize, PartialEq, Eq, Hash)]
pub enum ZvOp {
    PushBack,
    PushFront,
    PopBack,
    PopFront,
    Insert(u8),
    Set(u8),
    Remove(u8),
    Clear,
    Truncate(u8),
    Append(u8),
    /// a committed transaction: push_back, set(0) if non-empty, pop_front
    Txn,
    Poll,
}

#[derive(Clone, Copy, Debug, Serialize, Deserialize, PartialEq, Eq, Hash)]
pub enum ZvView {
    Raw,
    Head(u8),
    Tail(u8),
    Skip(u8),
    FilterAll,
    FilterNone,
    Sort,
}

#[derive(Clone, Debug, Serialize, Deserialize, PartialEq, Eq, Hash)]
pub struct ZvCase {
    pub initial: u8,
    pub view: ZvView,
    pub batched: bool,
    pub ops: Vec<ZvOp>,
}

type DynOne = Pin<Box<dyn Stream<Item = VectorDiff<()>>>>;
type DynMany = Pin<Box<dyn Stream<Item = Vec<VectorDiff<()>>>>>;
enum St {
    One(DynOne),
    Many(DynMany),
}

fn view_props(v: ZvView) -> Vec<Prop> {
    match v {
        ZvView::Raw => vec![Prop::C05, Prop::C06],
        ZvView::Head(_) | ZvView::Tail(_) | ZvView::Skip(_) => vec![Prop::C09],
        ZvView::FilterAll | ZvView::FilterNone => vec![Prop::C10],
        ZvView::Sort => vec![Prop::C11],
    }
}

fn expected_len(v: ZvView, n: usize) -> usize {
    match v {
        ZvView::Raw | ZvView::FilterAll | ZvView::Sort => n,
        ZvView::Head(l) | ZvView::Tail(l) => n.min(l as usize),
        ZvView::Skip(c) => n.saturating_sub(c as usize),
        ZvView::FilterNone => 0,
    }
}

fn applicable(d: &VectorDiff<()>, len: usize) -> bool {
    match d {
        VectorDiff::Insert { index, .. } => *index <= len,
        VectorDiff::Set { index, .. } | VectorDiff::Remove { index } => *index < len,
        VectorDiff::PopBack | VectorDiff::PopFront => len > 0,
        _ => true,
    }
}

pub fn run(case: &ZvCase, prop: Prop) -> R<CaseReport> {
    let mut rep = CaseReport::default();
    let props = view_props(case.view);
    let fail = |props: &[Prop], msg: String| -> Stop {
        if props.contains(&prop) {
            Stop::Violation(format!("[zero-sized elements, {:?}, batched {}] {msg}", case.view, case.batched))
        } else {
            Stop::Tainted(msg)
        }
    };
    // lag would turn everything into Resets: the capacity exceeds the longest history
    let mut ob: ObservableVector<()> = ObservableVector::with_capacity(256);
    ob.append(std::iter::repeat(()).take(case.initial as usize).collect());
    let sub = ob.subscribe();
    let (mut replica, mut st): (Vector<()>, St) = if case.batched && case.view == ZvView::Raw {
        let (v, s) = sub.into_values_and_batched_stream();
        (v, St::Many(Box::pin(s)))
    } else if case.batched {
        let b = sub.batched();
        match case.view {
            ZvView::Raw => unreachable!(),
            ZvView::Head(l) => {
                let (v, s) = b.head(l as usize);
                (v, St::Many(Box::pin(s)))
            }
            ZvView::Tail(l) => {
                let (v, s) = b.tail(l as usize);
                (v, St::Many(Box::pin(s)))
            }
            ZvView::Skip(c) => {
                let (v, s) = b.skip(c as usize);
                (v, St::Many(Box::pin(s)))
            }
            ZvView::FilterAll => {
                let (v, s) = b.filter(|_| true);
                (v, St::Many(Box::pin(s)))
            }
            ZvView::FilterNone => {
                let (v, s) = b.filter(|_| false);
                (v, St::Many(Box::pin(s)))
            }
            ZvView::Sort => {
                let (v, s) = b.sort();
                (v, St::Many(Box::pin(s)))
            }
        }
    } else {
        match case.view {
            ZvView::Raw => {
                let (v, s) = sub.into_values_and_stream();
                (v, St::One(Box::pin(s)))
            }
            ZvView::Head(l) => {
                let (v, s) = sub.head(l as usize);
                (v, St::One(Box::pin(s)))
            }
            ZvView::Tail(l) => {
                let (v, s) = sub.tail(l as usize);
                (v, St::One(Box::pin(s)))
            }
            ZvView::Skip(c) => {
                let (v, s) = sub.skip(c as usize);
                (v, St::One(Box::pin(s)))
            }
            ZvView::FilterAll => {
                let (v, s) = sub.filter(|_| true);
                (v, St::One(Box::pin(s)))
            }
            ZvView::FilterNone => {
                let (v, s) = sub.filter(|_| false);
                (v, St::One(Box::pin(s)))
            }
            ZvView::Sort => {
                let (v, s) = sub.sort();
                (v, St::One(Box::pin(s)))
            }
        }
    };
    rep.checks += 1;
    if replica.len() != expected_len(case.view, ob.len()) {
        return Err(fail(&props, format!("initial values have {} items, expected {} of the {} source items", replica.len(), expected_len(case.view, ob.len()), ob.len())));
    }
    let mut model = ob.len();
    let mut changed = false;
    // drain until Pending (or the end); returns true if the stream ended
    let mut drain = |st: &mut St, replica: &mut Vector<()>, rep: &mut CaseReport, model: usize, alive: bool| -> R<bool> {
        for _ in 0..10_000 {
            let flag = Flag::new();
            let w = flag_waker(&flag);
            let mut cx = Context::from_waker(&w);
            let item: Poll<Option<Vec<VectorDiff<()>>>> = match st {
                St::One(s) => s.as_mut().poll_next(&mut cx).map(|o| o.map(|d| vec![d])),
                St::Many(s) => s.as_mut().poll_next(&mut cx),
            };
            match item {
                Poll::Ready(Some(diffs)) => {
                    rep.checks += 1;
                    if diffs.is_empty() {
                        return Err(fail(&[Prop::C13, Prop::C07], "an empty batch was emitted".into()));
                    }
                    for d in diffs {
                        rep.checks += 1;
                        if !applicable(&d, replica.len()) {
                            return Err(fail(&props, format!("diff {:?} is not applicable to a view of {} items", d, replica.len())));
                        }
                        d.apply(replica);
                    }
                }
                Poll::Ready(None) => {
                    rep.checks += 1;
                    if alive {
                        return Err(fail(&[Prop::C08], "the stream ended although the vector is alive".into()));
                    }
                    return Ok(true);
                }
                Poll::Pending => {
                    rep.checks += 2;
                    if !alive {
                        return Err(fail(&[Prop::C08], "the stream is Pending although the vector was dropped".into()));
                    }
                    let exp = expected_len(case.view, model);
                    if replica.len() != exp {
                        return Err(fail(&props, format!("the stream is Pending with a view of {} items, expected {exp} of the {model} source items", replica.len())));
                    }
                    return Ok(false);
                }
            }
        }
        Err(fail(&props, "the stream produced 10000 items without becoming Pending".into()))
    };
    for op in &case.ops {
        let n = ob.len();
        let ix = |i: u8, m: usize| if m == 0 { 0 } else { (i as usize * m) >> 8 };
        match *op {
            ZvOp::PushBack => ob.push_back(()),
            ZvOp::PushFront => ob.push_front(()),
            ZvOp::PopBack => {
                ob.pop_back();
            }
            ZvOp::PopFront => {
                ob.pop_front();
            }
            ZvOp::Insert(i) => ob.insert(ix(i, n + 1), ()),
            ZvOp::Set(i) => {
                if n > 0 {
                    ob.set(ix(i, n), ());
                    changed = true;
                }
            }
            ZvOp::Remove(i) => {
                if n > 0 {
                    ob.remove(ix(i, n));
                }
            }
            ZvOp::Clear => ob.clear(),
            ZvOp::Truncate(i) => ob.truncate(ix(i, n + 2)),
            ZvOp::Append(k) => ob.append(std::iter::repeat(()).take(k as usize % 5).collect()),
            ZvOp::Txn => {
                let mut t = ob.transaction();
                t.push_back(());
                if t.len() > 1 {
                    t.set(0, ());
                }
                t.pop_front();
                t.commit();
            }
            ZvOp::Poll => {
                drain(&mut st, &mut replica, &mut rep, model, true)?;
            }
        }
        if !matches!(op, ZvOp::Poll) {
            model = ob.len();
        }
    }
    drain(&mut st, &mut replica, &mut rep, model, true)?;
    drop(ob);
    let ended = drain(&mut st, &mut replica, &mut rep, model, false)?;
    rep.checks += 2;
    if !ended {
        return Err(fail(&[Prop::C08], "the stream did not end after the vector was dropped".into()));
    }
    if replica.len() != expected_len(case.view, model) {
        return Err(fail(&props, format!("after the end the view has {} items, expected {}", replica.len(), expected_len(case.view, model))));
    }
    rep.nontrivial = changed && case.ops.len() >= 3;
    rep.classes.push(match case.view {
        ZvView::Raw => "zst_raw",
        ZvView::Head(_) => "zst_head",
        ZvView::Tail(_) => "zst_tail",
        ZvView::Skip(_) => "zst_skip",
        ZvView::FilterAll | ZvView::FilterNone => "zst_filter",
        ZvView::Sort => "zst_sort",
    });
    Ok(rep)
}

pub fn case(views: Vec<ZvView>) -> BoxedStrategy<ZvCase> {
    let op = prop_oneof![
        3 => Just(ZvOp::PushBack),
        2 => Just(ZvOp::PushFront),
        2 => Just(ZvOp::PopBack),
        2 => Just(ZvOp::PopFront),
        3 => any::<u8>().prop_map(ZvOp::Insert),
        3 => any::<u8>().prop_map(ZvOp::Set),
        3 => any::<u8>().prop_map(ZvOp::Remove),
        1 => Just(ZvOp::Clear),
        1 => any::<u8>().prop_map(ZvOp::Truncate),
        2 => any::<u8>().prop_map(ZvOp::Append),
        2 => Just(ZvOp::Txn),
        5 => Just(ZvOp::Poll),
    ];
    (0u8..6, proptest::sample::select(views), any::<bool>(), proptest::collection::vec(op, 0..=20))
        .prop_map(|(initial, view, batched, ops)| ZvCase { initial, view, batched, ops })
        .boxed()
}

pub fn views_for(prop: Prop) -> Vec<ZvView> {
    match prop {
        Prop::C09 => vec![ZvView::Head(0), ZvView::Head(2), ZvView::Head(4), ZvView::Tail(1), ZvView::Tail(3), ZvView::Skip(0), ZvView::Skip(2)],
        Prop::C10 => vec![ZvView::FilterAll, ZvView::FilterNone],
        Prop::C11 => vec![ZvView::Sort],
        _ => vec![ZvView::Raw],
    }
}
