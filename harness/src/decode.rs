//! Byte-string -> case decoders for the coverage-guided fuzz targets (cargo-fuzz / libFuzzer).
//! Every byte string decodes to a valid case (no validation to die in); exhausted input yields
//! zeros, which decode to short cases.

use arbitrary::Unstructured;

use crate::{
    engine_obs::{Fl, ObsCase, ObsOp, Via, Wr},
    vec_gen::{GenCfg, Pipes, StageKind, ALL_KINDS, FIXED_KINDS},
    vec_types::*,
};

fn b(u: &mut Unstructured) -> u8 {
    u.arbitrary::<u8>().unwrap_or(0)
}
fn w(u: &mut Unstructured) -> u16 {
    u.arbitrary::<u16>().unwrap_or(0)
}
fn below(u: &mut Unstructured, n: usize) -> usize {
    if n == 0 {
        0
    } else {
        b(u) as usize % n
    }
}

fn stage(u: &mut Unstructured, kinds: &[StageKind]) -> Stage {
    let k = kinds[below(u, kinds.len())];
    let l = b(u) % 11;
    match k {
        StageKind::Head => Stage::Head(l),
        StageKind::Tail => Stage::Tail(l),
        StageKind::Skip => Stage::Skip(l),
        StageKind::DynHead => Stage::DynHead,
        StageKind::DynTail => Stage::DynTail,
        StageKind::DynSkip => Stage::DynSkip,
        StageKind::DynHeadInit => Stage::DynHeadInit(l),
        StageKind::DynTailInit => Stage::DynTailInit(l),
        StageKind::DynSkipInit => Stage::DynSkipInit(l),
        StageKind::Filter => Stage::Filter(b(u)),
        StageKind::FilterMap => Stage::FilterMap(b(u)),
        StageKind::Sort => Stage::Sort,
        StageKind::SortBy => Stage::SortBy,
        StageKind::SortByKey => Stage::SortByKey,
    }
}

fn subspec(u: &mut Unstructured, cfg: &GenCfg) -> SubSpec {
    let all: &[StageKind] = if cfg.twin { &FIXED_KINDS } else { &ALL_KINDS };
    let pipeline = match &cfg.pipes {
        Pipes::None => vec![],
        Pipes::Single(k) => vec![stage(u, k)],
        Pipes::Chain => (0..2 + below(u, 2)).map(|_| stage(u, all)).collect(),
        Pipes::Any => (0..below(u, 4)).map(|_| stage(u, all)).collect(),
    };
    let x = b(u);
    SubSpec {
        batched: (x as u32 % 100) < cfg.batched_pct,
        pipeline,
        policy: cfg.policies[below(u, cfg.policies.len())],
        fifo: x & 0x80 != 0,
        twin: cfg.twin && x & 0x40 != 0,
        convert: (x >> 3) % 3,
    }
}

fn dec(u: &mut Unstructured) -> Dec {
    match b(u) % 9 {
        0..=2 => Dec::Keep,
        3 | 4 => Dec::Set(b(u) % 8),
        5 | 6 => Dec::Remove,
        7 => Dec::SetRemove(b(u) % 8),
        _ => Dec::Stop,
    }
}

fn vop(u: &mut Unstructured, cfg: &GenCfg) -> VOp {
    let n = if cfg.oob { 30 } else { 26 };
    match b(u) % n {
        0 | 1 => VOp::Append((0..below(u, 5)).map(|_| b(u) % 8).collect()),
        2 => VOp::Clear,
        3..=5 => VOp::PushFront(b(u) % 8),
        6..=8 => VOp::PushBack(b(u) % 8),
        9 | 10 => VOp::PopFront,
        11 | 12 => VOp::PopBack,
        13..=15 => VOp::Insert(w(u), b(u) % 8),
        16..=18 => VOp::Set(w(u), b(u) % 8),
        19..=21 => VOp::Remove(w(u)),
        22 => VOp::Truncate(w(u)),
        23 => VOp::EntrySet(w(u), b(u) % 8),
        24 => VOp::EntryRemove(w(u)),
        25 => {
            let ds = (0..below(u, 6)).map(|_| dec(u)).collect();
            if b(u) & 1 == 0 {
                VOp::ForEach(ds)
            } else {
                VOp::Entries(ds)
            }
        }
        26 => VOp::OobInsert(b(u) % 3, b(u) % 8),
        27 => VOp::OobSet(b(u) % 3, b(u) % 8),
        28 => VOp::OobRemove(b(u) % 3),
        _ => VOp::OobEntry(b(u) % 3),
    }
}

fn op(u: &mut Unstructured, cfg: &GenCfg) -> Op {
    let total = cfg.w_vop + cfg.w_txn + cfg.w_subscribe + cfg.w_limit + cfg.w_poll + cfg.w_dropsub;
    let mut x = b(u) as u32 % total.max(1);
    if x < cfg.w_vop {
        return Op::V(vop(u, cfg));
    }
    x -= cfg.w_vop;
    if x < cfg.w_txn {
        let n = below(u, cfg.max_txn_body + 1);
        let body = (0..n)
            .map(|_| match b(u) % 20 {
                0 | 1 => TOp::Rollback,
                2 => TOp::DropSub(b(u)),
                3 => TOp::Poll(b(u)),
                _ => TOp::V(vop(u, cfg)),
            })
            .collect();
        let end = if b(u) % 4 == 0 { TxnEnd::Drop } else { TxnEnd::Commit };
        return Op::Txn { body, end };
    }
    x -= cfg.w_txn;
    if x < cfg.w_subscribe {
        return Op::Subscribe(subspec(u, cfg));
    }
    x -= cfg.w_subscribe;
    if x < cfg.w_limit {
        return if b(u) % 13 == 0 { Op::DropLimit { sub: b(u), stage: b(u) % 3 } } else { Op::SetLimit { sub: b(u), stage: b(u) % 3, value: w(u) } };
    }
    x -= cfg.w_limit;
    if x < cfg.w_poll {
        let mode = match b(u) % 9 {
            0..=2 => PollMode::Once,
            3..=6 => PollMode::UntilPending,
            _ => PollMode::K(1 + b(u) % 3),
        };
        return Op::Poll { sub: b(u), mode };
    }
    Op::DropSub(b(u))
}

pub fn vec_case(data: &[u8], cfg: &GenCfg) -> VecCase {
    let mut u = Unstructured::new(data);
    let capacity = cfg.capacities[below(&mut u, cfg.capacities.len())];
    let initial = (0..below(&mut u, cfg.max_initial + 1)).map(|_| b(&mut u) % 8).collect();
    let flags = b(&mut u);
    let nsubs = cfg.initial_subs.0 + below(&mut u, cfg.initial_subs.1 - cfg.initial_subs.0 + 1);
    let subs = (0..nsubs).map(|_| subspec(&mut u, cfg)).collect();
    let mut ops = vec![];
    while !u.is_empty() && ops.len() < 40 {
        ops.push(op(&mut u, cfg));
    }
    VecCase { capacity, initial, probe: (flags as u32 % 100) < cfg.probe_pct, subs, ops, final_drop: flags & 0x80 != 0, strict: false, shared_waker: flags & 0x40 != 0 }
}

fn wr(u: &mut Unstructured) -> Wr {
    let (k, p) = (b(u) % 3, b(u) % 3);
    match b(u) % 12 {
        0..=2 => Wr::Set(k, p),
        3..=5 => Wr::SetIfNotEq(k, p),
        6..=8 => Wr::SetIfHashNotEq(k, p),
        9 => Wr::Take,
        10 => Wr::Update(k),
        _ => Wr::UpdateIf(k, p & 1 == 1),
    }
}

pub fn obs_case(data: &[u8], flavour: Fl) -> ObsCase {
    let mut u = Unstructured::new(data);
    let f = b(&mut u);
    let mut ops = vec![];
    while !u.is_empty() && ops.len() < 48 {
        let u = &mut u;
        let ix = b(u);
        let o = match b(u) % 34 {
            0..=6 => ObsOp::Write { owner: ix, wr: wr(u) },
            7 => ObsOp::OwnerGet(ix),
            8 => ObsOp::CloneOwner(ix),
            9 | 10 => ObsOp::DropOwner(ix),
            11 => ObsOp::Downgrade(ix),
            12 => ObsOp::Upgrade(ix),
            13 => ObsOp::CloneWeak(ix),
            14 => ObsOp::DropWeak(ix),
            15 => if ix & 1 == 0 { ObsOp::IntoShared } else { ObsOp::CloneFromOther(ix) },
            16 | 17 => ObsOp::Subscribe(ix),
            18 => ObsOp::SubscribeReset(ix),
            19 => ObsOp::SubClone(ix),
            20 => ObsOp::SubCloneReset(ix),
            21 => ObsOp::SubReset(ix),
            22 => ObsOp::SubGet(ix),
            23 => ObsOp::SubRead { sub: ix, hold: b(u) & 1 == 1 },
            24 => ObsOp::NextNow(ix),
            25 => ObsOp::NextRefNow { sub: ix, hold: b(u) & 1 == 1 },
            26..=29 => ObsOp::Poll { sub: ix, via: [Via::Stream, Via::Next, Via::NextRef][b(u) as usize % 3] },
            30 => ObsOp::PollAll,
            31 => ObsOp::DropSub(ix),
            32 => match b(u) % 6 {
                0 => ObsOp::Read { owner: ix, hold: true },
                1 => ObsOp::WriteLock { owner: ix },
                2 => ObsOp::TryRead { owner: ix, hold: false },
                3 => ObsOp::TryWrite { owner: ix, hold: true },
                4 => ObsOp::GuardWrite { guard: ix, wr: wr(u) },
                _ => ObsOp::DropGuard(ix),
            },
            _ => ObsOp::DropGuard(ix),
        };
        ops.push(o);
    }
    ObsCase { flavour, start_shared: f & 1 == 1, init: ((f >> 1) % 3, (f >> 3) % 3), guards: flavour == Fl::Sync && f & 0x40 != 0, ops, strict: false, shared_waker: f & 0x20 != 0, start_default: f & 0x90 == 0x90 }
}
