//! Engine B3: observables of a zero-sized value type (`()`), sync flavour, unique and shared
//! owner. The value carries no information, so everything observable is notification: which calls
//! make which subscribers ready, which wakers fire, when the stream ends (C01, C02, C03). A
//! library shortcut keyed on the value's size or on "the value did not change" shows here and
//! nowhere else.

use std::{
    pin::Pin,
    task::{Context, Poll},
};

use eyeball::{Observable, ObservableWriteGuard, SharedObservable, Subscriber};
use futures_core::Stream;
use proptest::prelude::*;
use serde::{Deserialize, Serialize};

use crate::{
    campaign::CaseReport,
    common::{flag_waker, Flag, PendingMark, Prop, Stop, R},
};

#[derive(Clone, Copy, Debug, Serialize, Deserialize, PartialEq, Eq, Hash)]
pub enum ZOp {
    Set,
    Take,
    Update,
    UpdateIf(bool),
    SetIfNotEq,
    SetIfHashNotEq,
    /// the same five setters through a write guard of the shared owner: (setter 0..=4, update_if answer)
    Guard(u8, bool),
    Subscribe,
    SubscribeReset,
    Poll(u8),
    NextNow(u8),
    Reset(u8),
    CloneSub(u8),
    IntoShared,
    CloneOwner,
    DropOwner,
}

#[derive(Clone, Debug, Serialize, Deserialize, PartialEq, Eq, Hash)]
pub struct ZCase {
    pub shared: bool,
    pub ops: Vec<ZOp>,
}

enum Own {
    U(Observable<()>),
    S(Vec<SharedObservable<()>>),
    Gone,
}

struct SubM {
    sub: Subscriber<()>,
    unseen: bool,
    pending: Option<PendingMark>,
}

struct World {
    prop: Prop,
    rep: CaseReport,
    own: Own,
    subs: Vec<SubM>,
    closed: bool,
    notified_while_pending: u32,
    not_notified: u32,
}

impl World {
    fn fail<T>(&self, props: &[Prop], msg: String) -> R<T> {
        if props.contains(&self.prop) {
            Err(Stop::Violation(format!("[zero-sized value] {msg}")))
        } else {
            Err(Stop::Tainted(msg))
        }
    }
    fn check(&mut self, c: bool, props: &[Prop], msg: impl FnOnce() -> String) -> R {
        self.rep.checks += 1;
        if c {
            Ok(())
        } else {
            self.fail(props, msg())
        }
    }
    /// a notifying update (or the close) happened: every pending subscriber's waker must have fired
    fn after_notify(&mut self, what: &str, close: bool) -> R {
        for i in 0..self.subs.len() {
            self.subs[i].unseen = true;
            if let Some(p) = self.subs[i].pending.clone() {
                self.notified_while_pending += 1;
                let props: &[Prop] = if close { &[Prop::C02, Prop::C03] } else { &[Prop::C02] };
                self.check(p.woken(), props, || format!("subscriber {i} was Pending, but {what} did not wake the waker of its last poll"))?;
            }
        }
        Ok(())
    }
    fn poll(&mut self, i: usize) -> R {
        let flag = Flag::new();
        let w = flag_waker(&flag);
        let mut cx = Context::from_waker(&w);
        let r = Pin::new(&mut self.subs[i].sub).poll_next(&mut cx);
        let prev = self.subs[i].pending.take();
        let exp_end = self.closed;
        let exp_item = !self.closed && self.subs[i].unseen;
        match r {
            Poll::Ready(None) => {
                self.check(exp_end, &[Prop::C03, Prop::C01], || format!("subscriber {i}: stream ended although an owner is alive"))?;
            }
            Poll::Ready(Some(())) => {
                self.check(!exp_end, &[Prop::C03, Prop::C01], || format!("subscriber {i}: stream yielded an item after every owner was dropped"))?;
                self.check(exp_item, &[Prop::C01], || format!("subscriber {i}: stream is ready although no notifying update happened since it last observed"))?;
                self.subs[i].unseen = false;
            }
            Poll::Pending => {
                self.check(!exp_end, &[Prop::C03, Prop::C02], || format!("subscriber {i}: Pending although every owner was dropped"))?;
                self.check(!exp_item, &[Prop::C01, Prop::C02], || format!("subscriber {i}: Pending although a notifying update happened that it has not observed"))?;
                self.subs[i].pending = Some(PendingMark::new(&flag));
            }
        }
        if !matches!(r, Poll::Pending) {
            if let Some(p) = prev {
                self.check(p.woken(), &[Prop::C02], || format!("subscriber {i}: ready although the waker of its previous Pending poll was never woken"))?;
            }
        }
        Ok(())
    }
    fn step(&mut self, op: ZOp) -> R {
        let pick = |ix: u8, n: usize| if n == 0 { None } else { Some((ix as usize * n) >> 8) };
        // (notifies, description)
        let mut notified: Option<&'static str> = None;
        match op {
            ZOp::Set | ZOp::Take | ZOp::Update | ZOp::UpdateIf(_) | ZOp::SetIfNotEq | ZOp::SetIfHashNotEq => {
                let (n, what): (bool, &'static str) = match (&mut self.own, op) {
                    (Own::Gone, _) => return Ok(()),
                    (Own::U(o), ZOp::Set) => {
                        Observable::set(o, ());
                        (true, "set")
                    }
                    (Own::U(o), ZOp::Take) => {
                        Observable::take(o);
                        (true, "take")
                    }
                    (Own::U(o), ZOp::Update) => {
                        Observable::update(o, |_| {});
                        (true, "update")
                    }
                    (Own::U(o), ZOp::UpdateIf(b)) => {
                        Observable::update_if(o, |_| b);
                        (b, "update_if")
                    }
                    (Own::U(o), ZOp::SetIfNotEq) => {
                        let r = Observable::set_if_not_eq(o, ());
                        self.rep.checks += 1;
                        if r.is_some() {
                            return self.fail(&[Prop::C01], "set_if_not_eq(()) returned Some although () == ()".into());
                        }
                        (false, "set_if_not_eq")
                    }
                    (Own::U(o), _) => {
                        let r = Observable::set_if_hash_not_eq(o, ());
                        self.rep.checks += 1;
                        if r.is_some() {
                            return self.fail(&[Prop::C01], "set_if_hash_not_eq(()) returned Some although the hashes are equal".into());
                        }
                        (false, "set_if_hash_not_eq")
                    }
                    (Own::S(v), ZOp::Set) => {
                        v[0].set(());
                        (true, "set")
                    }
                    (Own::S(v), ZOp::Take) => {
                        v[0].take();
                        (true, "take")
                    }
                    (Own::S(v), ZOp::Update) => {
                        v[0].update(|_| {});
                        (true, "update")
                    }
                    (Own::S(v), ZOp::UpdateIf(b)) => {
                        v[0].update_if(|_| b);
                        (b, "update_if")
                    }
                    (Own::S(v), ZOp::SetIfNotEq) => {
                        let r = v[0].set_if_not_eq(());
                        self.rep.checks += 1;
                        if r.is_some() {
                            return self.fail(&[Prop::C01], "set_if_not_eq(()) returned Some although () == ()".into());
                        }
                        (false, "set_if_not_eq")
                    }
                    (Own::S(v), _) => {
                        let r = v[0].set_if_hash_not_eq(());
                        self.rep.checks += 1;
                        if r.is_some() {
                            return self.fail(&[Prop::C01], "set_if_hash_not_eq(()) returned Some although the hashes are equal".into());
                        }
                        (false, "set_if_hash_not_eq")
                    }
                };
                if n {
                    notified = Some(what);
                } else {
                    self.not_notified += 1;
                }
            }
            ZOp::Guard(k, b) => {
                let Own::S(v) = &self.own else { return Ok(()) };
                let mut g = v[0].write();
                let (n, what): (bool, &'static str) = match k % 5 {
                    0 => {
                        ObservableWriteGuard::set(&mut g, ());
                        (true, "set through a write guard")
                    }
                    1 => {
                        ObservableWriteGuard::take(&mut g);
                        (true, "take through a write guard")
                    }
                    2 => {
                        ObservableWriteGuard::update(&mut g, |_| {});
                        (true, "update through a write guard")
                    }
                    3 => {
                        ObservableWriteGuard::update_if(&mut g, |_| b);
                        (b, "update_if through a write guard")
                    }
                    _ => {
                        let r = ObservableWriteGuard::set_if_not_eq(&mut g, ());
                        if r.is_some() {
                            drop(g);
                            return self.fail(&[Prop::C01], "set_if_not_eq(()) through a write guard returned Some".into());
                        }
                        (false, "set_if_not_eq through a write guard")
                    }
                };
                drop(g);
                if n {
                    notified = Some(what);
                } else {
                    self.not_notified += 1;
                }
            }
            ZOp::Subscribe | ZOp::SubscribeReset => {
                if self.subs.len() >= 5 {
                    return Ok(());
                }
                let reset = op == ZOp::SubscribeReset;
                let sub = match &self.own {
                    Own::Gone => return Ok(()),
                    Own::U(o) => {
                        if reset {
                            Observable::subscribe_reset(o)
                        } else {
                            Observable::subscribe(o)
                        }
                    }
                    Own::S(v) => {
                        if reset {
                            v[0].subscribe_reset()
                        } else {
                            v[0].subscribe()
                        }
                    }
                };
                self.subs.push(SubM { sub, unseen: reset, pending: None });
            }
            ZOp::Poll(ix) => {
                if let Some(i) = pick(ix, self.subs.len()) {
                    self.poll(i)?;
                }
            }
            ZOp::NextNow(ix) => {
                if let Some(i) = pick(ix, self.subs.len()) {
                    self.subs[i].sub.next_now();
                    self.subs[i].unseen = false;
                }
            }
            ZOp::Reset(ix) => {
                if let Some(i) = pick(ix, self.subs.len()) {
                    self.subs[i].sub.reset();
                    self.subs[i].unseen = true;
                    self.subs[i].pending = None;
                }
            }
            ZOp::CloneSub(ix) => {
                if self.subs.len() >= 5 {
                    return Ok(());
                }
                if let Some(i) = pick(ix, self.subs.len()) {
                    let c = self.subs[i].sub.clone();
                    let unseen = self.subs[i].unseen;
                    self.subs.push(SubM { sub: c, unseen, pending: None });
                }
            }
            ZOp::IntoShared => {
                if let Own::U(_) = &self.own {
                    let Own::U(o) = std::mem::replace(&mut self.own, Own::Gone) else { unreachable!() };
                    self.own = Own::S(vec![Observable::into_shared(o)]);
                }
            }
            ZOp::CloneOwner => {
                if let Own::S(v) = &mut self.own {
                    if v.len() < 3 {
                        let c = v[0].clone();
                        v.push(c);
                    }
                }
            }
            ZOp::DropOwner => {
                let last = match &mut self.own {
                    Own::Gone => return Ok(()),
                    Own::U(_) => true,
                    Own::S(v) => {
                        if v.len() > 1 {
                            v.pop();
                            false
                        } else {
                            true
                        }
                    }
                };
                if last {
                    self.own = Own::Gone;
                    self.closed = true;
                    self.after_notify("dropping the last owner", true)?;
                }
            }
        }
        if let Some(what) = notified {
            self.after_notify(what, false)?;
        }
        Ok(())
    }
}

pub fn run(case: &ZCase, prop: Prop) -> R<CaseReport> {
    let mut w = World {
        prop,
        rep: CaseReport::default(),
        own: if case.shared { Own::S(vec![SharedObservable::new(())]) } else { Own::U(Observable::new(())) },
        subs: vec![],
        closed: false,
        notified_while_pending: 0,
        not_notified: 0,
    };
    for op in &case.ops {
        w.step(*op)?;
    }
    // finale: every owner goes away, every stream ends
    w.step(ZOp::DropOwner)?;
    w.step(ZOp::DropOwner)?;
    w.step(ZOp::DropOwner)?;
    for i in 0..w.subs.len() {
        w.poll(i)?;
        w.poll(i)?;
    }
    let mut rep = w.rep;
    rep.nontrivial = w.notified_while_pending >= 1 && w.not_notified >= 1;
    if w.notified_while_pending > 0 {
        rep.classes.push("notification_while_a_subscriber_was_pending");
    }
    if w.not_notified > 0 {
        rep.classes.push("conditional_setter_that_must_not_notify");
    }
    Ok(rep)
}

pub fn case() -> BoxedStrategy<ZCase> {
    let ix = || any::<u8>();
    let op = prop_oneof![
        4 => Just(ZOp::Set),
        2 => Just(ZOp::Take),
        2 => Just(ZOp::Update),
        2 => any::<bool>().prop_map(ZOp::UpdateIf),
        1 => Just(ZOp::SetIfNotEq),
        1 => Just(ZOp::SetIfHashNotEq),
        3 => (0u8..5, any::<bool>()).prop_map(|(k, b)| ZOp::Guard(k, b)),
        3 => Just(ZOp::Subscribe),
        1 => Just(ZOp::SubscribeReset),
        8 => ix().prop_map(ZOp::Poll),
        1 => ix().prop_map(ZOp::NextNow),
        1 => ix().prop_map(ZOp::Reset),
        1 => ix().prop_map(ZOp::CloneSub),
        1 => Just(ZOp::IntoShared),
        1 => Just(ZOp::CloneOwner),
        1 => Just(ZOp::DropOwner),
    ];
    (any::<bool>(), proptest::collection::vec(op, 0..=24)).prop_map(|(shared, ops)| ZCase { shared, ops }).boxed()
}
