//! Engine B3: observables of a zero-sized value type (`()`), sync flavour, unique and shared
//! owner. The value carries no information, so everything observable is notification: which calls
//! make which subscribers ready, which wakers fire, when the stream ends (C01, C02, C03). A
//! library shortcut keyed on the value's size or on "the value did not change" shows here and
//! nowhere else.

use std::{
    pin::Pin,
    task::{Context, Poll},
};

use eyeball::{Observable, ObservableWriteGuard, SharedObservable, Subscriber};
use futures_core::Stream;
use proptest::prelude::*;
use serde::{Deserialize, Serialize};

use crate::{
    campaign::CaseReport,
    common::{flag_waker, Flag, PendingMark, Prop, Stop, R},
};

#[derive(Clone, Copy, Debug, Serialize, Deserialize, PartialEq, Eq, Hash)]
pub enum ZOp {
    Set,
    Take,
    Update,
    UpdateIf(bool),
    SetIfNotEq,
    SetIfHashNotEq,
    /// the same five setters through a write guard of the shared owner: (setter 0..=4, update_if answer)
    Guard(u8, bool),
    Subscribe,
    SubscribeReset,
    Poll(u8),
    NextNow(u8),
    Reset(u8),
    CloneSub(u8),
    IntoShared,
    CloneOwner,
    DropOwner,
}

#[derive(Clone, Debug, Serialize, Deserialize, PartialEq, Eq, Hash)]
pub struct ZCase {
    pub shared: bool,
    pub ops: Vec<ZOp>,
    /// poll with hand-rolled wakers that all carry the same data pointer and differ only in their
    /// vtable (one per subscriber slot): not `will_wake`-equal, yet equal to anything that looks
    /// at the data pointer alone
    #[serde(default)]
    pub slot_wakers: bool,
}

mod slot {
    use std::sync::atomic::{AtomicUsize, Ordering};
    use std::task::{RawWaker, RawWakerVTable, Waker};
    pub const SLOTS: usize = 6;
    thread_local! {
        // one counter array per runner thread; all wakers of that thread share its address as data
        pub static COUNTS: [AtomicUsize; SLOTS] = Default::default();
    }
    macro_rules! vt {
        ($i:expr) => {{
            unsafe fn clone(d: *const ()) -> RawWaker {
                RawWaker::new(d, &VT[$i])
            }
            unsafe fn wake(d: *const ()) {
                (*(d as *const [AtomicUsize; SLOTS]))[$i].fetch_add(1, Ordering::SeqCst);
            }
            unsafe fn drop(_: *const ()) {}
            RawWakerVTable::new(clone, wake, wake, drop)
        }};
    }
    pub static VT: [RawWakerVTable; SLOTS] = [vt!(0), vt!(1), vt!(2), vt!(3), vt!(4), vt!(5)];
    pub fn waker(i: usize) -> Waker {
        COUNTS.with(|c| unsafe { Waker::from_raw(RawWaker::new(c as *const _ as *const (), &VT[i % SLOTS])) })
    }
    pub fn count(i: usize) -> usize {
        COUNTS.with(|c| c[i % SLOTS].load(Ordering::SeqCst))
    }
}

enum Own {
    U(Observable<()>),
    S(Vec<SharedObservable<()>>),
    Gone,
}

struct SubM {
    sub: Subscriber<()>,
    unseen: bool,
    pending: Option<PendingMark>,
    /// slot-waker mode: wake count of this subscriber's slot when its last poll returned Pending
    slot_pending: Option<usize>,
}

struct World {
    prop: Prop,
    rep: CaseReport,
    own: Own,
    subs: Vec<SubM>,
    closed: bool,
    slot_wakers: bool,
    notified_while_pending: u32,
    not_notified: u32,
}

impl World {
    fn fail<T>(&self, props: &[Prop], msg: String) -> R<T> {
        if props.contains(&self.prop) {
            Err(Stop::Violation(format!("[zero-sized value] {msg}")))
        } else {
            Err(Stop::Tainted(msg))
        }
    }
    fn check(&mut self, c: bool, props: &[Prop], msg: impl FnOnce() -> String) -> R {
        self.rep.checks += 1;
        if c {
            Ok(())
        } else {
            self.fail(props, msg())
        }
    }
    /// a notifying update (or the close) happened: every pending subscriber's waker must have fired
    fn after_notify(&mut self, what: &str, close: bool) -> R {
        for i in 0..self.subs.len() {
            self.subs[i].unseen = true;
            if let Some(at) = self.subs[i].slot_pending {
                self.notified_while_pending += 1;
                let props: &[Prop] = if close { &[Prop::C02, Prop::C03] } else { &[Prop::C02] };
                let woken = slot::count(i) > at;
                self.check(woken, props, || format!("subscriber {i} was Pending (waker: shared data pointer, own vtable), but {what} did not wake it"))?;
            }
            if let Some(p) = self.subs[i].pending.clone() {
                self.notified_while_pending += 1;
                let props: &[Prop] = if close { &[Prop::C02, Prop::C03] } else { &[Prop::C02] };
                self.check(p.woken(), props, || format!("subscriber {i} was Pending, but {what} did not wake the waker of its last poll"))?;
            }
        }
        Ok(())
    }
    fn poll(&mut self, i: usize) -> R {
        let flag = Flag::new();
        let w = if self.slot_wakers { slot::waker(i) } else { flag_waker(&flag) };
        let mut cx = Context::from_waker(&w);
        let r = Pin::new(&mut self.subs[i].sub).poll_next(&mut cx);
        let prev = self.subs[i].pending.take();
        let slot_prev = self.subs[i].slot_pending.take();
        if self.slot_wakers {
            if let (Some(at), false) = (slot_prev, matches!(r, Poll::Pending)) {
                let woken = slot::count(i) > at;
                self.check(woken, &[Prop::C02], || format!("subscriber {i}: ready although the waker of its previous Pending poll (shared data pointer, own vtable) was never woken"))?;
            }
        }
        let exp_end = self.closed;
        let exp_item = !self.closed && self.subs[i].unseen;
        match r {
            Poll::Ready(None) => {
                self.check(exp_end, &[Prop::C03, Prop::C01], || format!("subscriber {i}: stream ended although an owner is alive"))?;
            }
            Poll::Ready(Some(())) => {
                self.check(!exp_end, &[Prop::C03, Prop::C01], || format!("subscriber {i}: stream yielded an item after every owner was dropped"))?;
                self.check(exp_item, &[Prop::C01], || format!("subscriber {i}: stream is ready although no notifying update happened since it last observed"))?;
                self.subs[i].unseen = false;
            }
            Poll::Pending => {
                self.check(!exp_end, &[Prop::C03, Prop::C02], || format!("subscriber {i}: Pending although every owner was dropped"))?;
                self.check(!exp_item, &[Prop::C01, Prop::C02], || format!("subscriber {i}: Pending although a notifying update happened that it has not observed"))?;
                if self.slot_wakers {
                    self.subs[i].slot_pending = Some(slot::count(i));
                } else {
                    self.subs[i].pending = Some(PendingMark::new(&flag));
                }
            }
        }
        if !matches!(r, Poll::Pending) {
            if let Some(p) = prev {
                self.check(p.woken(), &[Prop::C02], || format!("subscriber {i}: ready although the waker of its previous Pending poll was never woken"))?;
            }
        }
        Ok(())
    }
    fn step(&mut self, op: ZOp) -> R {
        let pick = |ix: u8, n: usize| if n == 0 { None } else { Some((ix as usize * n) >> 8) };
        // (notifies, description)
        let mut notified: Option<&'static str> = None;
        match op {
            ZOp::Set | ZOp::Take | ZOp::Update | ZOp::UpdateIf(_) | ZOp::SetIfNotEq | ZOp::SetIfHashNotEq => {
                let (n, what): (bool, &'static str) = match (&mut self.own, op) {
                    (Own::Gone, _) => return Ok(()),
                    (Own::U(o), ZOp::Set) => {
                        Observable::set(o, ());
                        (true, "set")
                    }
                    (Own::U(o), ZOp::Take) => {
                        Observable::take(o);
                        (true, "take")
                    }
                    (Own::U(o), ZOp::Update) => {
                        Observable::update(o, |_| {});
                        (true, "update")
                    }
                    (Own::U(o), ZOp::UpdateIf(b)) => {
                        Observable::update_if(o, |_| b);
                        (b, "update_if")
                    }
                    (Own::U(o), ZOp::SetIfNotEq) => {
                        let r = Observable::set_if_not_eq(o, ());
                        self.rep.checks += 1;
                        if r.is_some() {
                            return self.fail(&[Prop::C01], "set_if_not_eq(()) returned Some although () == ()".into());
                        }
                        (false, "set_if_not_eq")
                    }
                    (Own::U(o), _) => {
                        let r = Observable::set_if_hash_not_eq(o, ());
                        self.rep.checks += 1;
                        if r.is_some() {
                            return self.fail(&[Prop::C01], "set_if_hash_not_eq(()) returned Some although the hashes are equal".into());
                        }
                        (false, "set_if_hash_not_eq")
                    }
                    (Own::S(v), ZOp::Set) => {
                        v[0].set(());
                        (true, "set")
                    }
                    (Own::S(v), ZOp::Take) => {
                        v[0].take();
                        (true, "take")
                    }
                    (Own::S(v), ZOp::Update) => {
                        v[0].update(|_| {});
                        (true, "update")
                    }
                    (Own::S(v), ZOp::UpdateIf(b)) => {
                        v[0].update_if(|_| b);
                        (b, "update_if")
                    }
                    (Own::S(v), ZOp::SetIfNotEq) => {
                        let r = v[0].set_if_not_eq(());
                        self.rep.checks += 1;
                        if r.is_some() {
                            return self.fail(&[Prop::C01], "set_if_not_eq(()) returned Some although () == ()".into());
                        }
                        (false, "set_if_not_eq")
                    }
                    (Own::S(v), _) => {
                        let r = v[0].set_if_hash_not_eq(());
                        self.rep.checks += 1;
                        if r.is_some() {
                            return self.fail(&[Prop::C01], "set_if_hash_not_eq(()) returned Some although the hashes are equal".into());
                        }
                        (false, "set_if_hash_not_eq")
                    }
                };
                if n {
                    notified = Some(what);
                } else {
                    self.not_notified += 1;
                }
            }
            ZOp::Guard(k, b) => {
                let Own::S(v) = &self.own else { return Ok(()) };
                let mut g = v[0].write();
                let (n, what): (bool, &'static str) = match k % 5 {
                    0 => {
                        ObservableWriteGuard::set(&mut g, ());
                        (true, "set through a write guard")
                    }
                    1 => {
                        ObservableWriteGuard::take(&mut g);
                        (true, "take through a write guard")
                    }
                    2 => {
                        ObservableWriteGuard::update(&mut g, |_| {});
                        (true, "update through a write guard")
                    }
                    3 => {
                        ObservableWriteGuard::update_if(&mut g, |_| b);
                        (b, "update_if through a write guard")
                    }
                    _ => {
                        let r = ObservableWriteGuard::set_if_not_eq(&mut g, ());
                        if r.is_some() {
                            drop(g);
                            return self.fail(&[Prop::C01], "set_if_not_eq(()) through a write guard returned Some".into());
                        }
                        (false, "set_if_not_eq through a write guard")
                    }
                };
                drop(g);
                if n {
                    notified = Some(what);
                } else {
                    self.not_notified += 1;
                }
            }
            ZOp::Subscribe | ZOp::SubscribeReset => {
                if self.subs.len() >= 5 {
                    return Ok(());
                }
                let reset = op == ZOp::SubscribeReset;
                let sub = match &self.own {
                    Own::Gone => return Ok(()),
                    Own::U(o) => {
                        if reset {
                            Observable::subscribe_reset(o)
                        } else {
                            Observable::subscribe(o)
                        }
                    }
                    Own::S(v) => {
                        if reset {
                            v[0].subscribe_reset()
                        } else {
                            v[0].subscribe()
                        }
                    }
                };
                self.subs.push(SubM { sub, unseen: reset, pending: None, slot_pending: None });
            }
            ZOp::Poll(ix) => {
                if let Some(i) = pick(ix, self.subs.len()) {
                    self.poll(i)?;
                }
            }
            ZOp::NextNow(ix) => {
                if let Some(i) = pick(ix, self.subs.len()) {
                    self.subs[i].sub.next_now();
                    self.subs[i].unseen = false;
                }
            }
            ZOp::Reset(ix) => {
                if let Some(i) = pick(ix, self.subs.len()) {
                    self.subs[i].sub.reset();
                    self.subs[i].unseen = true;
                    self.subs[i].pending = None;
                    self.subs[i].slot_pending = None;
                }
            }
            ZOp::CloneSub(ix) => {
                if self.subs.len() >= 5 {
                    return Ok(());
                }
                if let Some(i) = pick(ix, self.subs.len()) {
                    let c = self.subs[i].sub.clone();
                    let unseen = self.subs[i].unseen;
                    self.subs.push(SubM { sub: c, unseen, pending: None, slot_pending: None });
                }
            }
            ZOp::IntoShared => {
                if let Own::U(_) = &self.own {
                    let Own::U(o) = std::mem::replace(&mut self.own, Own::Gone) else { unreachable!() };
                    self.own = Own::S(vec![Observable::into_shared(o)]);
                }
            }
            ZOp::CloneOwner => {
                if let Own::S(v) = &mut self.own {
                    if v.len() < 3 {
                        let c = v[0].clone();
                        v.push(c);
                    }
                }
            }
            ZOp::DropOwner => {
                let last = match &mut self.own {
                    Own::Gone => return Ok(()),
                    Own::U(_) => true,
                    Own::S(v) => {
                        if v.len() > 1 {
                            v.pop();
                            false
                        } else {
                            true
                        }
                    }
                };
                if last {
                    self.own = Own::Gone;
                    self.closed = true;
                    self.after_notify("dropping the last owner", true)?;
                }
            }
        }
        if let Some(what) = notified {
            self.after_notify(what, false)?;
        }
        Ok(())
    }
}

pub fn run(case: &ZCase, prop: Prop) -> R<CaseReport> {
    let mut w = World {
        prop,
        rep: CaseReport::default(),
        own: if case.shared { Own::S(vec![SharedObservable::new(())]) } else { Own::U(Observable::new(())) },
        subs: vec![],
        closed: false,
        slot_wakers: case.slot_wakers,
        notified_while_pending: 0,
        not_notified: 0,
    };
    for op in &case.ops {
        w.step(*op)?;
    }
    // finale: every owner goes away, every stream ends
    w.step(ZOp::DropOwner)?;
    w.step(ZOp::DropOwner)?;
    w.step(ZOp::DropOwner)?;
    for i in 0..w.subs.len() {
        w.poll(i)?;
        w.poll(i)?;
    }
    let mut rep = w.rep;
    rep.nontrivial = w.notified_while_pending >= 1 && w.not_notified >= 1;
    if w.notified_while_pending > 0 {
        rep.classes.push("notification_while_a_subscriber_was_pending");
    }
    if w.not_notified > 0 {
        rep.classes.push("conditional_setter_that_must_not_notify");
    }
    if case.slot_wakers {
        rep.classes.push("wakers_with_shared_data_pointer");
    }
    Ok(rep)
}

pub fn case() -> BoxedStrategy<ZCase> {
    let ix = || any::<u8>();
    let op = prop_oneof![
        4 => Just(ZOp::Set),
        2 => Just(ZOp::Take),
        2 => Just(ZOp::Update),
        2 => any::<bool>().prop_map(ZOp::UpdateIf),
        1 => Just(ZOp::SetIfNotEq),
        1 => Just(ZOp::SetIfHashNotEq),
        3 => (0u8..5, any::<bool>()).prop_map(|(k, b)| ZOp::Guard(k, b)),
        3 => Just(ZOp::Subscribe),
        1 => Just(ZOp::SubscribeReset),
        8 => ix().prop_map(ZOp::Poll),
        1 => ix().prop_map(ZOp::NextNow),
        1 => ix().prop_map(ZOp::Reset),
        1 => ix().prop_map(ZOp::CloneSub),
        1 => Just(ZOp::IntoShared),
        1 => Just(ZOp::CloneOwner),
        1 => Just(ZOp::DropOwner),
    ];
    (any::<bool>(), proptest::collection::vec(op, 0..=24), prop_oneof![2 => Just(false), 1 => Just(true)]).prop_map(|(shared, ops, slot_wakers)| ZCase { shared, ops, slot_wakers }).boxed()
}

// ---------------------------------------------------------------------------------------------
// Other value shapes for the conditional setters (C01): byte-string values whose `Hash` feeds the
// hasher a slice (not a single integer), and a value type whose `==` is coarser than identity.

/// ASCII-case-insensitive equality and hash; the stored bytes stay visible through `get`.
#[derive(Clone, Debug)]
pub struct Ci(pub Vec<u8>);
impl PartialEq for Ci {
    fn eq(&self, o: &Self) -> bool {
        self.0.eq_ignore_ascii_case(&o.0)
    }
}
impl std::hash::Hash for Ci {
    fn hash<H: std::hash::Hasher>(&self, h: &mut H) {
        self.0.to_ascii_lowercase().hash(h)
    }
}

#[derive(Clone, Debug, Serialize, Deserialize, PartialEq, Eq, Hash)]
pub struct ShapeCase {
    pub a: Vec<u8>,
    pub b: Vec<u8>,
    /// 0: Vec<u8>, 1: String (from the bytes as ASCII letters), 2: Ci
    pub kind: u8,
    pub shared: bool,
}

fn shape_fail(prop: Prop, props: &[Prop], msg: String) -> Stop {
    if props.contains(&prop) {
        Stop::Violation(format!("[value shapes] {msg}"))
    } else {
        Stop::Tainted(msg)
    }
}

/// One observable holding `a`, one subscriber; `set_if_hash_not_eq(b)` and `set_if_not_eq(b)` must
/// store, notify and return Some(a) exactly when b differs (by hash / by ==) and otherwise change
/// nothing - in particular keep the stored representation - and return None.
pub fn run_shape(case: &ShapeCase, prop: Prop) -> R<CaseReport> {
    let mut rep = CaseReport::default();
    let letters = |v: &Vec<u8>| -> Vec<u8> { v.iter().map(|b| b"abABrR01"[(*b % 8) as usize]).collect() };
    let (a, b) = (letters(&case.a), letters(&case.b));
    macro_rules! go {
        ($mk:expr, $same_hash:expr, $same_eq:expr, $show:expr) => {
            go!(@ $same_hash, $same_eq, $show, $mk(&a), $mk(&b))
        };
        ($mk:expr, $same_hash:expr, $same_eq:expr, $show:expr, $va:expr, $vb:expr) => {
            go!(@ $same_hash, $same_eq, $show, $va, $vb)
        };
        (@ $same_hash:expr, $same_eq:expr, $show:expr, $va:expr, $vb:expr) => {{
            for by_hash in [true, false] {
                let (va, vb) = ($va, $vb);
                let differs = if by_hash { !$same_hash } else { !$same_eq };
                let flag = Flag::new();
                let w = flag_waker(&flag);
                let mut cx = Context::from_waker(&w);
                let (ret, now, ready) = if case.shared {
                    let ob = SharedObservable::new(va.clone());
                    let mut sub = ob.subscribe();
                    let _ = Pin::new(&mut sub).poll_next(&mut cx);
                    let ret = if by_hash { ob.set_if_hash_not_eq(vb.clone()) } else { ob.set_if_not_eq(vb.clone()) };
                    let ready = matches!(Pin::new(&mut sub).poll_next(&mut cx), Poll::Ready(Some(_)));
                    (ret, ob.get(), ready)
                } else {
                    let mut ob = Observable::new(va.clone());
                    let mut sub = Observable::subscribe(&ob);
                    let _ = Pin::new(&mut sub).poll_next(&mut cx);
                    let ret = if by_hash { Observable::set_if_hash_not_eq(&mut ob, vb.clone()) } else { Observable::set_if_not_eq(&mut ob, vb.clone()) };
                    let ready = matches!(Pin::new(&mut sub).poll_next(&mut cx), Poll::Ready(Some(_)));
                    (ret, Observable::get(&ob).clone(), ready)
                };
                rep.checks += 4;
                let what = if by_hash { "set_if_hash_not_eq" } else { "set_if_not_eq" };
                let exp_now = if differs { $show(&vb) } else { $show(&va) };
                if ret.is_some() != differs {
                    return Err(shape_fail(prop, &[Prop::C01], format!("{what}({:?}) on {:?} returned {}, expected {}", $show(&vb), $show(&va), if ret.is_some() { "Some" } else { "None" }, if differs { "Some" } else { "None" })));
                }
                if let Some(p) = &ret {
                    if $show(p) != $show(&va) {
                        return Err(shape_fail(prop, &[Prop::C01], format!("{what} returned {:?} as the previous value, it was {:?}", $show(p), $show(&va))));
                    }
                }
                if $show(&now) != exp_now {
                    // on a SharedObservable this is also C04's "every read returns the value of the latest preceding write"
                    let props: &[Prop] = if case.shared { &[Prop::C01, Prop::C04] } else { &[Prop::C01] };
                    return Err(shape_fail(prop, props, format!("after {what}({:?}) on {:?} the stored value is {:?}, expected {:?}", $show(&vb), $show(&va), $show(&now), exp_now)));
                }
                if ready != differs {
                    return Err(shape_fail(prop, &[Prop::C01, Prop::C02], format!("after {what}({:?}) on {:?} the subscriber is {}, expected {}", $show(&vb), $show(&va), if ready { "ready" } else { "Pending" }, if differs { "ready" } else { "Pending" })));
                }
                if differs && !flag.woken() {
                    return Err(shape_fail(prop, &[Prop::C02], format!("{what} stored a new value but the pending subscriber's waker was not woken")));
                }
            }
        }};
    }
    // kind 3: pointer-sized integers inside a tuple (hashed through write_usize / write_isize); the
    // near variant differs from `a` in one bit anywhere in the word, high half included
    let word = |v: &Vec<u8>| -> (usize, isize) {
        let mut x = [0u8; 8];
        for (i, b) in case_bytes(v).iter().take(8).enumerate() {
            x[i] = *b;
        }
        let u = u64::from_le_bytes(x);
        (u as usize, (u.rotate_left(17) as i64) as isize)
    };
    fn case_bytes(v: &Vec<u8>) -> &Vec<u8> {
        v
    }
    if case.kind % 4 == 3 {
        let wa = word(&case.a);
        let wb = if case.a.len() == case.b.len() && !case.b.is_empty() {
            // (the generator's near variant) one bit of difference
            let bit = case.b.iter().map(|x| *x as u32).sum::<u32>() % 64;
            ((wa.0 as u64 ^ (1u64 << bit)) as usize, wa.1)
        } else {
            word(&case.b)
        };
        let (a, b) = (wa, wb);
        let _ = (&a, &b);
        go!(|_v: &Vec<u8>| (0usize, 0isize), a == b, a == b, |v: &(usize, isize)| *v, a, b);
        rep.nontrivial = a != b;
        rep.classes.push("pointer_sized_integer_value");
        return Ok(rep);
    }
    match case.kind % 3 {
        0 => go!(|v: &Vec<u8>| v.clone(), a == b, a == b, |v: &Vec<u8>| v.clone()),
        1 => go!(|v: &Vec<u8>| String::from_utf8(v.clone()).unwrap(), a == b, a == b, |v: &String| v.clone().into_bytes()),
        _ => go!(|v: &Vec<u8>| Ci(v.clone()), a.eq_ignore_ascii_case(&b), a.eq_ignore_ascii_case(&b), |v: &Ci| v.0.clone()),
    }
    rep.nontrivial = a != b;
    rep.classes.push(match case.kind % 3 {
        0 => "bytes_value",
        1 => "string_value",
        _ => "coarse_equality_value",
    });
    if a != b && a.eq_ignore_ascii_case(&b) {
        rep.classes.push("equal_but_not_identical");
    }
    Ok(rep)
}

pub fn shape_case() -> BoxedStrategy<ShapeCase> {
    let bytes = || proptest::collection::vec(any::<u8>(), 0..=11);
    (bytes(), bytes(), 0u8..4, any::<bool>(), any::<bool>())
        .prop_map(|(a, b, kind, shared, near)| {
            // half of the cases: b is a with one position changed (same length, near-collisions)
            let b = if near && !a.is_empty() {
                let mut c = a.clone();
                let i = (b.first().copied().unwrap_or(0) as usize) % c.len();
                c[i] = c[i].wrapping_add(b.get(1).copied().unwrap_or(1) | 1);
                c
            } else {
                b
            };
            ShapeCase { a, b, kind, shared }
        })
        .boxed()
}
