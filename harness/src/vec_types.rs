//! Case types of engine A (ObservableVector + subscribers + adapter pipelines).
//! A case is plain serialisable data; indices are 16-bit fractions resolved against the
//! current length at run time (monotone, so shrinking works).

use serde::{Deserialize, Serialize};

pub type Ix = u16;

/// Per-visit decision during for_each / entries traversal.
#[derive(Clone, Copy, Debug, Serialize, Deserialize, PartialEq, Eq, Hash)]
pub enum Dec {
    Keep,
    Set(u8),
    Remove,
    SetRemove(u8),
    /// leave the loop (entries() only; for_each treats it as Keep)
    Stop,
}

/// A mutation usable both directly on the vector and inside a transaction.
#[derive(Clone, Debug, Serialize, Deserialize, PartialEq, Eq, Hash)]
pub enum VOp {
    Append(Vec<u8>),
    Clear,
    PushFront(u8),
    PushBack(u8),
    PopFront,
    PopBack,
    Insert(Ix, u8),
    Set(Ix, u8),
    Remove(Ix),
    /// fraction of 0..=len+1 (so >= len, a documented no-op, is reachable)
    Truncate(Ix),
    EntrySet(Ix, u8),
    EntryRemove(Ix),
    ForEach(Vec<Dec>),
    Entries(Vec<Dec>),
    /// out-of-range calls: index = len + 1 + extra (insert) / len + extra (others); must panic
    OobInsert(u8, u8),
    OobSet(u8, u8),
    OobRemove(u8),
    OobEntry(u8),
}

#[derive(Clone, Debug, Serialize, Deserialize, PartialEq, Eq, Hash)]
pub enum TOp {
    V(VOp),
    Rollback,
    /// drop a subscriber while the transaction is open
    DropSub(u8),
    /// poll a subscriber once while the transaction is open (nothing of it may be visible)
    Poll(u8),
}

#[derive(Clone, Copy, Debug, Serialize, Deserialize, PartialEq, Eq, Hash)]
pub enum TxnEnd {
    Commit,
    Drop,
}

#[derive(Clone, Copy, Debug, Serialize, Deserialize, PartialEq, Eq, Hash)]
pub enum Stage {
    Head(u8),
    Tail(u8),
    Skip(u8),
    DynHead,
    DynTail,
    DynSkip,
    DynHeadInit(u8),
    DynTailInit(u8),
    DynSkipInit(u8),
    /// pass iff bit (key % 8) of the mask is set
    Filter(u8),
    /// as Filter, passing items mapped to key + 16
    FilterMap(u8),
    Sort,
    SortBy,
    SortByKey,
}

impl Stage {
    pub fn is_dynamic(&self) -> bool {
        matches!(
            self,
            Stage::DynHead | Stage::DynTail | Stage::DynSkip | Stage::DynHeadInit(_) | Stage::DynTailInit(_) | Stage::DynSkipInit(_)
        )
    }
    pub fn is_pure_dynamic(&self) -> bool {
        matches!(self, Stage::DynHead | Stage::DynTail | Stage::DynSkip)
    }
    pub fn is_tail(&self) -> bool {
        matches!(self, Stage::Tail(_) | Stage::DynTail | Stage::DynTailInit(_))
    }
    pub fn is_sort(&self) -> bool {
        matches!(self, Stage::Sort | Stage::SortBy | Stage::SortByKey)
    }
    pub fn is_hts(&self) -> bool {
        !self.is_sort() && !matches!(self, Stage::Filter(_) | Stage::FilterMap(_))
    }
    pub fn kind_name(&self) -> &'static str {
        match self {
            Stage::Head(_) => "head",
            Stage::Tail(_) => "tail",
            Stage::Skip(_) => "skip",
            Stage::DynHead => "dynamic_head",
            Stage::DynTail => "dynamic_tail",
            Stage::DynSkip => "dynamic_skip",
            Stage::DynHeadInit(_) => "dynamic_head_with_initial_value",
            Stage::DynTailInit(_) => "dynamic_tail_with_initial_value",
            Stage::DynSkipInit(_) => "dynamic_skip_with_initial_count",
            Stage::Filter(_) => "filter",
            Stage::FilterMap(_) => "filter_map",
            Stage::Sort => "sort",
            Stage::SortBy => "sort_by",
            Stage::SortByKey => "sort_by_key",
        }
    }
}

#[derive(Clone, Copy, Debug, Serialize, Deserialize, PartialEq, Eq, Hash)]
pub enum Policy {
    /// drained to Pending after every top-level operation
    Eager,
    /// polled only by explicit Poll operations
    Lazy,
    /// like Lazy, but drained before its backlog would exceed the capacity (never lags)
    Bounded,
}

#[derive(Clone, Debug, Serialize, Deserialize, PartialEq, Eq, Hash)]
pub struct SubSpec {
    pub batched: bool,
    pub pipeline: Vec<Stage>,
    pub policy: Policy,
    /// limit/count source of dynamic stages: lossless FIFO stream (true) or a Subscriber of an
    /// `Observable<usize>` (false)
    pub fifo: bool,
    /// C13: also create an unbatched twin with the same pipeline (fixed-parameter pipelines only)
    pub twin: bool,
    /// how the VectorSubscriber handle becomes a stream: 0 = converted at once (VectorObserver::
    /// into_parts); 1 = `values()` at once, `into_stream()` / `into_batched_stream()` only at the
    /// first poll; 2 = `values()` at once, `into_values_and_(batched_)stream()` at the first poll
    #[serde(default)]
    pub convert: u8,
}

#[derive(Clone, Copy, Debug, Serialize, Deserialize, PartialEq, Eq, Hash)]
pub enum PollMode {
    Once,
    UntilPending,
    K(u8),
}

#[derive(Clone, Debug, Serialize, Deserialize, PartialEq, Eq, Hash)]
pub enum Op {
    V(VOp),
    Txn { body: Vec<TOp>, end: TxnEnd },
    Subscribe(SubSpec),
    /// value is a fraction of 0..=len+3 where len is the stage's current input length
    SetLimit { sub: u8, stage: u8, value: Ix },
    DropLimit { sub: u8, stage: u8 },
    Poll { sub: u8, mode: PollMode },
    DropSub(u8),
}

#[derive(Clone, Debug, Serialize, Deserialize, PartialEq, Eq, Hash)]
pub struct VecCase {
    pub capacity: usize,
    pub initial: Vec<u8>,
    /// harness-internal batched probe subscriber that observes every broadcast message
    pub probe: bool,
    pub subs: Vec<SubSpec>,
    pub ops: Vec<Op>,
    pub final_drop: bool,
    /// replay of a known finding: no avoidance of known-finding triggers, and running into one
    /// is judged like anything else
    #[serde(default)]
    pub strict: bool,
    /// all polls of the case use one waker (one task driving every stream)
    #[serde(default)]
    pub shared_waker: bool,
}

/// resolve a fraction against `n` choices (0..n); n == 0 gives 0
pub fn frac(ix: Ix, n: usize) -> usize {
    ((ix as usize) * n) >> 16
}
pub fn frac8(ix: u8, n: usize) -> usize {
    ((ix as usize) * n) >> 8
}
