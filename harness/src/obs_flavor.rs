//! Uniform access to the sync and async-lock flavours of Observable / SharedObservable /
//! Subscriber, so that one interpreter drives both (C01-C03, C16, C19, C20).
//!
//! Async methods are driven by polling the returned future exactly once (`now`): in histories
//! where the harness holds no guard the lock is free, so every future must complete at once.

use std::{
    future::Future,
    pin::{pin, Pin},
    task::{Context, Poll, Waker},
};

use eyeball::{AsyncLock, Observable, ObservableReadGuard, ObservableWriteGuard, SharedObservable, Subscriber, WeakObservable};
use futures_core::Stream;

use crate::{
    common::{flag_waker, Flag},
    val::{MOVal, OVal},
};

/// Poll a future as an executor would at this instant: once, and again (a few times at most) only if
/// the future woke its own waker during the poll (a cooperative yield is not "blocked"). None if it is
/// still not ready (the future is dropped = cancelled).
pub fn now<F: Future>(f: F) -> Option<F::Output> {
    let flag = Flag::new();
    let w = flag_waker(&flag);
    let mut cx = Context::from_waker(&w);
    let mut f = pin!(f);
    for _ in 0..4 {
        let before = flag.wakes();
        match f.as_mut().poll(&mut cx) {
            Poll::Ready(v) => return Some(v),
            Poll::Pending => {
                if flag.wakes() == before {
                    return None;
                }
            }
        }
    }
    None
}

#[derive(Clone, Debug, PartialEq)]
pub enum PollRes {
    Pending,
    Item(MOVal),
    End,
}

/// `None` everywhere below = the async future did not complete on its first poll.
pub trait Flavor: 'static {
    const ASYNC: bool;
    type U: 'static;
    type S: 'static;
    type W: 'static;
    type Sub: Clone + 'static;
    type RG: 'static;
    type WG: 'static;

    fn new_unique(v: OVal) -> Self::U;
    fn new_shared(v: OVal) -> Self::S;
    /// `Default::default()` (value = OVal::default())
    fn default_unique() -> Self::U;
    fn default_shared() -> Self::S;
    fn into_shared(u: Self::U) -> Self::S;

    // unique
    fn u_get(u: &Self::U) -> MOVal;
    fn u_subscribe(u: &Self::U) -> Self::Sub;
    fn u_subscribe_reset(u: &Self::U) -> Self::Sub;
    fn u_set(u: &mut Self::U, v: OVal) -> Option<OVal>;
    fn u_set_if_not_eq(u: &mut Self::U, v: OVal) -> Option<Option<OVal>>;
    fn u_set_if_hash_not_eq(u: &mut Self::U, v: OVal) -> Option<Option<OVal>>;
    fn u_take(u: &mut Self::U) -> Option<OVal>;
    fn u_update(u: &mut Self::U, d: u8) -> Option<()>;
    fn u_update_if(u: &mut Self::U, d: u8, notify: bool) -> Option<()>;
    fn u_subscriber_count(u: &Self::U) -> usize;

    // shared
    fn s_clone(s: &Self::S) -> Self::S;
    fn s_clone_from(s: &mut Self::S, src: &Self::S);
    fn s_get(s: &Self::S) -> Option<MOVal>;
    fn s_subscribe(s: &Self::S) -> Option<Self::Sub>;
    fn s_subscribe_reset(s: &Self::S) -> Self::Sub;
    fn s_set(s: &Self::S, v: OVal) -> Option<OVal>;
    fn s_set_if_not_eq(s: &Self::S, v: OVal) -> Option<Option<OVal>>;
    fn s_set_if_hash_not_eq(s: &Self::S, v: OVal) -> Option<Option<OVal>>;
    fn s_take(s: &Self::S) -> Option<OVal>;
    fn s_update(s: &Self::S, d: u8) -> Option<()>;
    fn s_update_if(s: &Self::S, d: u8, notify: bool) -> Option<()>;
    fn s_counts(s: &Self::S) -> (usize, usize, usize, usize);
    fn s_downgrade(s: &Self::S) -> Self::W;
    fn w_upgrade(w: &Self::W) -> Option<Self::S>;
    fn w_clone(w: &Self::W) -> Self::W;
    fn w_clone_from(w: &mut Self::W, src: &Self::W);
    /// blocking in the sync flavour: only called when no conflicting guard is held
    fn s_read(s: &'static Self::S) -> Option<Self::RG>;
    fn s_write(s: &'static Self::S) -> Option<Self::WG>;
    /// None = would block
    fn s_try_read(s: &'static Self::S) -> Option<Self::RG>;
    fn s_try_write(s: &'static Self::S) -> Option<Self::WG>;

    // guards
    fn rg_get(g: &Self::RG) -> MOVal;
    fn wg_get(g: &Self::WG) -> MOVal;
    fn wg_set(g: &mut Self::WG, v: OVal) -> OVal;
    fn wg_set_if_not_eq(g: &mut Self::WG, v: OVal) -> Option<OVal>;
    fn wg_set_if_hash_not_eq(g: &mut Self::WG, v: OVal) -> Option<OVal>;
    fn wg_take(g: &mut Self::WG) -> OVal;
    fn wg_update(g: &mut Self::WG, d: u8);
    fn wg_update_if(g: &mut Self::WG, d: u8, notify: bool);

    // subscribers
    fn sub_clone(s: &Self::Sub) -> Self::Sub;
    fn sub_clone_reset(s: &Self::Sub) -> Self::Sub;
    fn sub_reset(s: &mut Self::Sub);
    fn sub_get(s: &Self::Sub) -> Option<MOVal>;
    fn sub_next_now(s: &mut Self::Sub) -> Option<MOVal>;
    fn sub_read(s: &'static Self::Sub) -> Option<Self::RG>;
    fn sub_next_ref_now(s: &'static mut Self::Sub) -> Option<Self::RG>;
    fn sub_poll_stream(s: &mut Self::Sub, w: &Waker) -> PollRes;
    /// `Subscriber::next()` polled once and dropped
    fn sub_poll_next(s: &mut Self::Sub, w: &Waker) -> PollRes;
    /// `Subscriber::next_ref()` polled once; the guard (if any) is read and dropped
    fn sub_poll_next_ref(s: &mut Self::Sub, w: &Waker) -> PollRes;
}

fn to_res(p: Poll<Option<OVal>>) -> PollRes {
    match p {
        Poll::Pending => PollRes::Pending,
        Poll::Ready(None) => PollRes::End,
        Poll::Ready(Some(v)) => PollRes::Item(v.m()),
    }
}

pub struct SyncF;

impl Flavor for SyncF {
    const ASYNC: bool = false;
    type U = Observable<OVal>;
    type S = SharedObservable<OVal>;
    type W = WeakObservable<OVal>;
    type Sub = Subscriber<OVal>;
    type RG = ObservableReadGuard<'static, OVal>;
    type WG = ObservableWriteGuard<'static, OVal>;

    fn new_unique(v: OVal) -> Self::U {
        Observable::new(v)
    }
    fn new_shared(v: OVal) -> Self::S {
        SharedObservable::new(v)
    }
    fn default_unique() -> Self::U {
        Default::default()
    }
    fn default_shared() -> Self::S {
        Default::default()
    }
    fn into_shared(u: Self::U) -> Self::S {
        Observable::into_shared(u)
    }
    fn u_get(u: &Self::U) -> MOVal {
        // both access paths must agree
        let a = Observable::get(u).m();
        let b = (**u).m();
        if a == b {
            a
        } else {
            (255, 255) // sentinel: never a model value
        }
    }
    fn u_subscribe(u: &Self::U) -> Self::Sub {
        Observable::subscribe(u)
    }
    fn u_subscribe_reset(u: &Self::U) -> Self::Sub {
        Observable::subscribe_reset(u)
    }
    fn u_set(u: &mut Self::U, v: OVal) -> Option<OVal> {
        Some(Observable::set(u, v))
    }
    fn u_set_if_not_eq(u: &mut Self::U, v: OVal) -> Option<Option<OVal>> {
        Some(Observable::set_if_not_eq(u, v))
    }
    fn u_set_if_hash_not_eq(u: &mut Self::U, v: OVal) -> Option<Option<OVal>> {
        Some(Observable::set_if_hash_not_eq(u, v))
    }
    fn u_take(u: &mut Self::U) -> Option<OVal> {
        Some(Observable::take(u))
    }
    fn u_update(u: &mut Self::U, d: u8) -> Option<()> {
        Observable::update(u, |v| v.bump(d));
        Some(())
    }
    fn u_update_if(u: &mut Self::U, d: u8, notify: bool) -> Option<()> {
        Observable::update_if(u, |v| {
            v.bump(d);
            notify
        });
        Some(())
    }
    fn u_subscriber_count(u: &Self::U) -> usize {
        Observable::subscriber_count(u)
    }
    fn s_clone(s: &Self::S) -> Self::S {
        s.clone()
    }
    fn s_clone_from(s: &mut Self::S, src: &Self::S) {
        s.clone_from(src)
    }
    fn s_get(s: &Self::S) -> Option<MOVal> {
        Some(s.get().m())
    }
    fn s_subscribe(s: &Self::S) -> Option<Self::Sub> {
        Some(s.subscribe())
    }
    fn s_subscribe_reset(s: &Self::S) -> Self::Sub {
        s.subscribe_reset()
    }
    fn s_set(s: &Self::S, v: OVal) -> Option<OVal> {
        Some(s.set(v))
    }
    fn s_set_if_not_eq(s: &Self::S, v: OVal) -> Option<Option<OVal>> {
        Some(s.set_if_not_eq(v))
    }
    fn s_set_if_hash_not_eq(s: &Self::S, v: OVal) -> Option<Option<OVal>> {
        Some(s.set_if_hash_not_eq(v))
    }
    fn s_take(s: &Self::S) -> Option<OVal> {
        Some(s.take())
    }
    fn s_update(s: &Self::S, d: u8) -> Option<()> {
        s.update(|v| v.bump(d));
        Some(())
    }
    fn s_update_if(s: &Self::S, d: u8, notify: bool) -> Option<()> {
        s.update_if(|v| {
            v.bump(d);
            notify
        });
        Some(())
    }
    fn s_counts(s: &Self::S) -> (usize, usize, usize, usize) {
        (s.observable_count(), s.subscriber_count(), s.strong_count(), s.weak_count())
    }
    fn s_downgrade(s: &Self::S) -> Self::W {
        s.downgrade()
    }
    fn w_upgrade(w: &Self::W) -> Option<Self::S> {
        w.upgrade()
    }
    fn w_clone(w: &Self::W) -> Self::W {
        w.clone()
    }
    fn w_clone_from(w: &mut Self::W, src: &Self::W) {
        w.clone_from(src)
    }
    fn s_read(s: &'static Self::S) -> Option<Self::RG> {
        Some(s.read())
    }
    fn s_write(s: &'static Self::S) -> Option<Self::WG> {
        Some(s.write())
    }
    fn s_try_read(s: &'static Self::S) -> Option<Self::RG> {
        s.try_read().ok()
    }
    fn s_try_write(s: &'static Self::S) -> Option<Self::WG> {
        s.try_write().ok()
    }
    fn rg_get(g: &Self::RG) -> MOVal {
        (**g).m()
    }
    fn wg_get(g: &Self::WG) -> MOVal {
        (**g).m()
    }
    fn wg_set(g: &mut Self::WG, v: OVal) -> OVal {
        ObservableWriteGuard::set(g, v)
    }
    fn wg_set_if_not_eq(g: &mut Self::WG, v: OVal) -> Option<OVal> {
        ObservableWriteGuard::set_if_not_eq(g, v)
    }
    fn wg_set_if_hash_not_eq(g: &mut Self::WG, v: OVal) -> Option<OVal> {
        ObservableWriteGuard::set_if_hash_not_eq(g, v)
    }
    fn wg_take(g: &mut Self::WG) -> OVal {
        ObservableWriteGuard::take(g)
    }
    fn wg_update(g: &mut Self::WG, d: u8) {
        ObservableWriteGuard::update(g, |v| v.bump(d))
    }
    fn wg_update_if(g: &mut Self::WG, d: u8, notify: bool) {
        ObservableWriteGuard::update_if(g, |v| {
            v.bump(d);
            notify
        })
    }
    fn sub_clone(s: &Self::Sub) -> Self::Sub {
        s.clone()
    }
    fn sub_clone_reset(s: &Self::Sub) -> Self::Sub {
        s.clone_reset()
    }
    fn sub_reset(s: &mut Self::Sub) {
        s.reset()
    }
    fn sub_get(s: &Self::Sub) -> Option<MOVal> {
        Some(s.get().m())
    }
    fn sub_next_now(s: &mut Self::Sub) -> Option<MOVal> {
        Some(s.next_now().m())
    }
    fn sub_read(s: &'static Self::Sub) -> Option<Self::RG> {
        Some(s.read())
    }
    fn sub_next_ref_now(s: &'static mut Self::Sub) -> Option<Self::RG> {
        Some(s.next_ref_now())
    }
    fn sub_poll_stream(s: &mut Self::Sub, w: &Waker) -> PollRes {
        let mut cx = Context::from_waker(w);
        to_res(Pin::new(s).poll_next(&mut cx))
    }
    fn sub_poll_next(s: &mut Self::Sub, w: &Waker) -> PollRes {
        let mut cx = Context::from_waker(w);
        let fut = pin!(s.next());
        to_res(fut.poll(&mut cx))
    }
    fn sub_poll_next_ref(s: &mut Self::Sub, w: &Waker) -> PollRes {
        let mut cx = Context::from_waker(w);
        let fut = pin!(s.next_ref());
        match fut.poll(&mut cx) {
            Poll::Pending => PollRes::Pending,
            Poll::Ready(None) => PollRes::End,
            Poll::Ready(Some(g)) => PollRes::Item((*g).m()),
        }
    }
}

pub struct AsyncF;

impl Flavor for AsyncF {
    const ASYNC: bool = true;
    type U = Observable<OVal, AsyncLock>;
    type S = SharedObservable<OVal, AsyncLock>;
    type W = WeakObservable<OVal, AsyncLock>;
    type Sub = Subscriber<OVal, AsyncLock>;
    type RG = ObservableReadGuard<'static, OVal, AsyncLock>;
    type WG = ObservableWriteGuard<'static, OVal, AsyncLock>;

    fn new_unique(v: OVal) -> Self::U {
        Observable::new_async(v)
    }
    fn new_shared(v: OVal) -> Self::S {
        SharedObservable::new_async(v)
    }
    fn default_unique() -> Self::U {
        Default::default()
    }
    fn default_shared() -> Self::S {
        Default::default()
    }
    fn into_shared(u: Self::U) -> Self::S {
        Observable::into_shared(u)
    }
    fn u_get(u: &Self::U) -> MOVal {
        Observable::get_async(u).m()
    }
    fn u_subscribe(u: &Self::U) -> Self::Sub {
        Observable::subscribe_async(u)
    }
    fn u_subscribe_reset(u: &Self::U) -> Self::Sub {
        Observable::subscribe_reset_async(u)
    }
    fn u_set(u: &mut Self::U, v: OVal) -> Option<OVal> {
        now(Observable::set_async(u, v))
    }
    fn u_set_if_not_eq(u: &mut Self::U, v: OVal) -> Option<Option<OVal>> {
        now(Observable::set_if_not_eq_async(u, v))
    }
    fn u_set_if_hash_not_eq(u: &mut Self::U, v: OVal) -> Option<Option<OVal>> {
        now(Observable::set_if_hash_not_eq_async(u, v))
    }
    fn u_take(u: &mut Self::U) -> Option<OVal> {
        now(Observable::take_async(u))
    }
    fn u_update(u: &mut Self::U, d: u8) -> Option<()> {
        now(Observable::update_async(u, |v| v.bump(d)))
    }
    fn u_update_if(u: &mut Self::U, d: u8, notify: bool) -> Option<()> {
        now(Observable::update_if_async(u, |v| {
            v.bump(d);
            notify
        }))
    }
    fn u_subscriber_count(u: &Self::U) -> usize {
        Observable::subscriber_count(u)
    }
    fn s_clone(s: &Self::S) -> Self::S {
        s.clone()
    }
    fn s_clone_from(s: &mut Self::S, src: &Self::S) {
        s.clone_from(src)
    }
    fn s_get(s: &Self::S) -> Option<MOVal> {
        now(s.get()).map(|v| v.m())
    }
    fn s_subscribe(s: &Self::S) -> Option<Self::Sub> {
        now(s.subscribe())
    }
    fn s_subscribe_reset(s: &Self::S) -> Self::Sub {
        s.subscribe_reset()
    }
    fn s_set(s: &Self::S, v: OVal) -> Option<OVal> {
        now(s.set(v))
    }
    fn s_set_if_not_eq(s: &Self::S, v: OVal) -> Option<Option<OVal>> {
        now(s.set_if_not_eq(v))
    }
    fn s_set_if_hash_not_eq(s: &Self::S, v: OVal) -> Option<Option<OVal>> {
        now(s.set_if_hash_not_eq(v))
    }
    fn s_take(s: &Self::S) -> Option<OVal> {
        now(s.take())
    }
    fn s_update(s: &Self::S, d: u8) -> Option<()> {
        now(s.update(|v| v.bump(d)))
    }
    fn s_update_if(s: &Self::S, d: u8, notify: bool) -> Option<()> {
        now(s.update_if(|v| {
            v.bump(d);
            notify
        }))
    }
    fn s_counts(s: &Self::S) -> (usize, usize, usize, usize) {
        (s.observable_count(), s.subscriber_count(), s.strong_count(), s.weak_count())
    }
    fn s_downgrade(s: &Self::S) -> Self::W {
        s.downgrade()
    }
    fn w_upgrade(w: &Self::W) -> Option<Self::S> {
        w.upgrade()
    }
    fn w_clone(w: &Self::W) -> Self::W {
        w.clone()
    }
    fn w_clone_from(w: &mut Self::W, src: &Self::W) {
        w.clone_from(src)
    }
    fn s_read(s: &'static Self::S) -> Option<Self::RG> {
        now(s.read())
    }
    fn s_write(s: &'static Self::S) -> Option<Self::WG> {
        now(s.write())
    }
    fn s_try_read(s: &'static Self::S) -> Option<Self::RG> {
        s.try_read()
    }
    fn s_try_write(s: &'static Self::S) -> Option<Self::WG> {
        s.try_write()
    }
    fn rg_get(g: &Self::RG) -> MOVal {
        (**g).m()
    }
    fn wg_get(g: &Self::WG) -> MOVal {
        (**g).m()
    }
    fn wg_set(g: &mut Self::WG, v: OVal) -> OVal {
        ObservableWriteGuard::set(g, v)
    }
    fn wg_set_if_not_eq(g: &mut Self::WG, v: OVal) -> Option<OVal> {
        ObservableWriteGuard::set_if_not_eq(g, v)
    }
    fn wg_set_if_hash_not_eq(g: &mut Self::WG, v: OVal) -> Option<OVal> {
        ObservableWriteGuard::set_if_hash_not_eq(g, v)
    }
    fn wg_take(g: &mut Self::WG) -> OVal {
        ObservableWriteGuard::take(g)
    }
    fn wg_update(g: &mut Self::WG, d: u8) {
        ObservableWriteGuard::update(g, |v| v.bump(d))
    }
    fn wg_update_if(g: &mut Self::WG, d: u8, notify: bool) {
        ObservableWriteGuard::update_if(g, |v| {
            v.bump(d);
            notify
        })
    }
    fn sub_clone(s: &Self::Sub) -> Self::Sub {
        s.clone()
    }
    fn sub_clone_reset(s: &Self::Sub) -> Self::Sub {
        s.clone_reset()
    }
    fn sub_reset(s: &mut Self::Sub) {
        s.reset()
    }
    fn sub_get(s: &Self::Sub) -> Option<MOVal> {
        now(s.get()).map(|v| v.m())
    }
    fn sub_next_now(s: &mut Self::Sub) -> Option<MOVal> {
        now(s.next_now()).map(|v| v.m())
    }
    fn sub_read(s: &'static Self::Sub) -> Option<Self::RG> {
        now(s.read())
    }
    fn sub_next_ref_now(s: &'static mut Self::Sub) -> Option<Self::RG> {
        now(s.next_ref_now())
    }
    fn sub_poll_stream(s: &mut Self::Sub, w: &Waker) -> PollRes {
        let mut cx = Context::from_waker(w);
        to_res(Pin::new(s).poll_next(&mut cx))
    }
    fn sub_poll_next(s: &mut Self::Sub, w: &Waker) -> PollRes {
        let mut cx = Context::from_waker(w);
        let fut = pin!(s.next());
        to_res(fut.poll(&mut cx))
    }
    fn sub_poll_next_ref(s: &mut Self::Sub, w: &Waker) -> PollRes {
        let mut cx = Context::from_waker(w);
        let fut = pin!(s.next_ref());
        match fut.poll(&mut cx) {
            Poll::Pending => PollRes::Pending,
            Poll::Ready(None) => PollRes::End,
            Poll::Ready(Some(g)) => PollRes::Item((*g).m()),
        }
    }
}
