//! Stream plumbing of engine A: transparent taps, limit streams, pipeline construction.

use std::{
    cell::RefCell,
    cmp::Ordering,
    collections::VecDeque,
    pin::Pin,
    rc::Rc,
    task::{Context, Poll, Waker},
};

use eyeball::{Observable, Subscriber};
use eyeball_im::VectorDiff;
use eyeball_im_util::vector::{VectorDiffContainer, VectorObserver, VectorObserverExt};
use futures_core::Stream;
use imbl::Vector;

use crate::{
    val::{MVal, Val},
    vec_types::Stage,
};

pub type Diff = VectorDiff<Val>;
pub type MDiff = VectorDiff<MVal>;
pub type BoxS<I> = Pin<Box<dyn Stream<Item = I>>>;

pub fn mdiff(d: &Diff) -> MDiff {
    match d {
        VectorDiff::Append { values } => VectorDiff::Append { values: values.iter().map(|v| v.m()).collect() },
        VectorDiff::Clear => VectorDiff::Clear,
        VectorDiff::PushFront { value } => VectorDiff::PushFront { value: value.m() },
        VectorDiff::PushBack { value } => VectorDiff::PushBack { value: value.m() },
        VectorDiff::PopFront => VectorDiff::PopFront,
        VectorDiff::PopBack => VectorDiff::PopBack,
        VectorDiff::Insert { index, value } => VectorDiff::Insert { index: *index, value: value.m() },
        VectorDiff::Set { index, value } => VectorDiff::Set { index: *index, value: value.m() },
        VectorDiff::Remove { index } => VectorDiff::Remove { index: *index },
        VectorDiff::Truncate { length } => VectorDiff::Truncate { length: *length },
        VectorDiff::Reset { values } => VectorDiff::Reset { values: values.iter().map(|v| v.m()).collect() },
    }
}

/// The harness's own bounds-checking apply. Inapplicable = Insert index > len, Set/Remove
/// index >= len, PopFront/PopBack on empty. Clear on empty, Append of nothing and Truncate to
/// >= len are applicable no-ops (the library documents them so).
pub fn apply_checked(d: &MDiff, v: &mut Vec<MVal>) -> Result<(), String> {
    match d {
        VectorDiff::Append { values } => v.extend(values.iter().copied()),
        VectorDiff::Clear => v.clear(),
        VectorDiff::PushFront { value } => v.insert(0, *value),
        VectorDiff::PushBack { value } => v.push(*value),
        VectorDiff::PopFront => {
            if v.is_empty() {
                return Err("PopFront on an empty view".into());
            }
            v.remove(0);
        }
        VectorDiff::PopBack => {
            if v.pop().is_none() {
                return Err("PopBack on an empty view".into());
            }
        }
        VectorDiff::Insert { index, value } => {
            if *index > v.len() {
                return Err(format!("Insert index {} > len {}", index, v.len()));
            }
            v.insert(*index, *value);
        }
        VectorDiff::Set { index, value } => {
            if *index >= v.len() {
                return Err(format!("Set index {} >= len {}", index, v.len()));
            }
            v[*index] = *value;
        }
        VectorDiff::Remove { index } => {
            if *index >= v.len() {
                return Err(format!("Remove index {} >= len {}", index, v.len()));
            }
            v.remove(*index);
        }
        VectorDiff::Truncate { length } => {
            if *length < v.len() {
                v.truncate(*length);
            }
        }
        VectorDiff::Reset { values } => *v = values.iter().copied().collect(),
    }
    Ok(())
}

#[derive(Clone, Copy, Debug, PartialEq, Eq)]
pub enum CmpKind {
    Ord,
    /// key % 4, descending
    By,
    /// key % 3 as sort key
    Key,
}

impl CmpKind {
    pub fn cmp(self, a: u8, b: u8) -> Ordering {
        match self {
            CmpKind::Ord => a.cmp(&b),
            CmpKind::By => (b % 4).cmp(&(a % 4)),
            CmpKind::Key => (a % 3).cmp(&(b % 3)),
        }
    }
    pub fn of(stage: &Stage) -> Option<CmpKind> {
        match stage {
            Stage::Sort => Some(CmpKind::Ord),
            Stage::SortBy => Some(CmpKind::By),
            Stage::SortByKey => Some(CmpKind::Key),
            _ => None,
        }
    }
}

/// What a tap has seen. Shared between the tap (inside the pipeline) and the interpreter.
#[derive(Default)]
pub struct TapState {
    pub replica: Vec<MVal>,
    pub ended: bool,
    pub items: u64,
    pub diffs: u64,
    pub resets: u64,
    pub pendings: u64,
    /// the wrapped stream returned Pending during the current outer poll (cleared by the interpreter)
    pub pending_this_poll: bool,
    /// first inapplicable diff
    pub error: Option<String>,
    pub empty_batch: bool,
    /// C15: fixed limit of the static Head/Tail stage whose output this tap records
    pub len_bound: Option<usize>,
    pub bound_broken: Option<String>,
    /// C15 non-triviality: an inserting diff arrived while the bounded view was full
    pub insert_while_full: bool,
    /// this tap feeds a sort stage: detect the K2 trigger (non-benign Truncate)
    pub sort_guard: Option<CmpKind>,
    pub known_hit: Option<&'static str>,
    /// items recorded during the current outer poll (cleared by the interpreter)
    pub polled: Vec<Vec<MDiff>>,
    /// full log of diffs (only kept when `keep_log`)
    pub keep_log: bool,
    pub log: Vec<MDiff>,
}

impl TapState {
    fn record_diff(&mut self, d: &Diff) -> MDiff {
        let md = mdiff(d);
        self.diffs += 1;
        if matches!(md, VectorDiff::Reset { .. }) {
            self.resets += 1;
        }
        if let (Some(cmp), VectorDiff::Truncate { length }) = (self.sort_guard, &md) {
            let m = *length;
            let len = self.replica.len();
            if m > 0 && m < len {
                // benign iff every removed item compares strictly greater than every kept item
                let benign = self.replica[..m].iter().all(|k| self.replica[m..].iter().all(|r| cmp.cmp(k.0, r.0) == Ordering::Less));
                if !benign && self.known_hit.is_none() {
                    self.known_hit = Some("K2");
                }
            }
        }
        if let Some(b) = self.len_bound {
            let inserting = matches!(
                md,
                VectorDiff::PushFront { .. } | VectorDiff::PushBack { .. } | VectorDiff::Insert { .. } | VectorDiff::Append { .. }
            );
            if inserting && self.replica.len() >= b && b > 0 {
                self.insert_while_full = true;
            }
        }
        if self.error.is_none() {
            if let Err(e) = apply_checked(&md, &mut self.replica) {
                self.error = Some(format!("{e} (diff {:?})", md));
            }
        }
        if let Some(b) = self.len_bound {
            if self.replica.len() > b && self.bound_broken.is_none() {
                self.bound_broken = Some(format!("view has {} items after {:?}, fixed limit is {}", self.replica.len(), md, b));
            }
        }
        if self.keep_log {
            self.log.push(md.clone());
        }
        md
    }
}

/// Item types flowing through a pipeline: a single diff or a batch.
pub trait DiffItem: VectorDiffContainer<Element = Val> + 'static {
    const BATCHED: bool;
    fn record(&self, st: &mut TapState);
}
impl DiffItem for Diff {
    const BATCHED: bool = false;
    fn record(&self, st: &mut TapState) {
        st.items += 1;
        let md = st.record_diff(self);
        st.polled.push(vec![md]);
    }
}
impl DiffItem for Vec<Diff> {
    const BATCHED: bool = true;
    fn record(&self, st: &mut TapState) {
        st.items += 1;
        if self.is_empty() {
            st.empty_batch = true;
        }
        let mds: Vec<MDiff> = self.iter().map(|d| st.record_diff(d)).collect();
        st.polled.push(mds);
    }
}

/// Transparent wrapper: forwards poll_next and the caller's Context unchanged, records items.
pub struct Tap<I> {
    inner: BoxS<I>,
    st: Rc<RefCell<TapState>>,
}
impl<I: DiffItem> Stream for Tap<I> {
    type Item = I;
    fn poll_next(mut self: Pin<&mut Self>, cx: &mut Context<'_>) -> Poll<Option<I>> {
        let r = self.inner.as_mut().poll_next(cx);
        let mut st = self.st.borrow_mut();
        match &r {
            Poll::Ready(Some(item)) => item.record(&mut st),
            Poll::Ready(None) => st.ended = true,
            Poll::Pending => {
                st.pendings += 1;
                st.pending_this_poll = true;
            }
        }
        r
    }
}

pub fn tap<I: DiffItem>(inner: BoxS<I>, initial: &Vector<Val>) -> (BoxS<I>, Rc<RefCell<TapState>>) {
    let st = Rc::new(RefCell::new(TapState { replica: initial.iter().map(|v| v.m()).collect(), ..Default::default() }));
    (Box::pin(Tap { inner, st: st.clone() }), st)
}

// ---------------------------------------------------------------------------------------------
// limit / count sources

#[derive(Default)]
pub struct FifoState {
    pub queue: VecDeque<usize>,
    pub closed: bool,
    pub waker: Option<Waker>,
}

pub enum LimitSrc {
    Obs(Subscriber<usize>),
    Fifo(Rc<RefCell<FifoState>>),
}

/// State shared between a dynamic stage's limit stream and the interpreter.
pub struct LimitShared {
    /// adapter-side limit: the last value the stream delivered (or the initial one)
    pub delivered: Option<usize>,
    pub deliveries: u64,
    pub is_tail: bool,
    /// tap in front of the stage: its replica length is the adapter's buffered length
    pub input: Rc<RefCell<TapState>>,
    pub known_hit: Option<&'static str>,
}

pub struct LimitStream {
    src: LimitSrc,
    shared: Rc<RefCell<LimitShared>>,
}

impl Stream for LimitStream {
    type Item = usize;
    fn poll_next(mut self: Pin<&mut Self>, cx: &mut Context<'_>) -> Poll<Option<usize>> {
        let this = &mut *self;
        let r = match &mut this.src {
            LimitSrc::Obs(sub) => Pin::new(sub).poll_next(cx),
            LimitSrc::Fifo(f) => {
                let mut f = f.borrow_mut();
                if let Some(v) = f.queue.pop_front() {
                    Poll::Ready(Some(v))
                } else if f.closed {
                    Poll::Ready(None)
                } else {
                    f.waker = Some(cx.waker().clone());
                    Poll::Pending
                }
            }
        };
        if let Poll::Ready(Some(new)) = r {
            let mut sh = this.shared.borrow_mut();
            if sh.is_tail {
                // K1: Tail::update_limit emits old-new PopFronts, wrong iff old > len > new >= 1
                let old = sh.delivered.unwrap_or(0);
                let len = sh.input.borrow().replica.len();
                if k1_trigger(old, len, new) && sh.known_hit.is_none() {
                    sh.known_hit = Some("K1");
                }
            }
            sh.delivered = Some(new);
            sh.deliveries += 1;
        }
        r
    }
}

pub fn k1_trigger(old: usize, len: usize, new: usize) -> bool {
    old > len && len > new && new >= 1
}

/// Interpreter-side handle of a dynamic stage's limit.
pub struct LimitCtl {
    pub obs: Option<Observable<usize>>,
    pub fifo: Option<Rc<RefCell<FifoState>>>,
    pub shared: Rc<RefCell<LimitShared>>,
    /// latest value announced by the harness (None: none yet)
    pub latest: Option<usize>,
    /// for the FIFO source: the value at the back of the queue (what the adapter will hold when
    /// it gets to the next value)
    pub alive: bool,
    /// an announced value was never delivered because the Observable was dropped first
    pub lost_on_drop: bool,
}

impl LimitCtl {
    pub fn announce(&mut self, v: usize) {
        self.latest = Some(v);
        if let Some(o) = &mut self.obs {
            Observable::set(o, v);
        }
        if let Some(f) = &self.fifo {
            let w = {
                let mut f = f.borrow_mut();
                f.queue.push_back(v);
                f.waker.take()
            };
            if let Some(w) = w {
                w.wake();
            }
        }
    }
    pub fn close(&mut self) {
        self.alive = false;
        if self.obs.is_some() {
            if self.latest != self.shared.borrow().delivered && self.latest.is_some() {
                self.lost_on_drop = true;
            }
            self.obs = None;
        }
        if let Some(f) = &self.fifo {
            let w = {
                let mut f = f.borrow_mut();
                f.closed = true;
                f.waker.take()
            };
            if let Some(w) = w {
                w.wake();
            }
        }
    }
    /// the limit the adapter will hold once it has drained its limit stream
    pub fn pending_old(&self) -> Option<usize> {
        if let Some(f) = &self.fifo {
            if let Some(v) = f.borrow().queue.back() {
                return Some(*v);
            }
        }
        self.shared.borrow().delivered
    }
    /// the limit the view must reflect at a quiescent point
    pub fn effective(&self) -> Option<usize> {
        if self.lost_on_drop {
            self.shared.borrow().delivered
        } else {
            self.latest.or(self.shared.borrow().delivered)
        }
    }
}

fn make_limit(fifo: bool, initial: Option<usize>, is_tail: bool, input: Rc<RefCell<TapState>>) -> (LimitStream, LimitCtl) {
    let shared = Rc::new(RefCell::new(LimitShared { delivered: initial, deliveries: 0, is_tail, input, known_hit: None }));
    if fifo {
        let f = Rc::new(RefCell::new(FifoState::default()));
        (
            LimitStream { src: LimitSrc::Fifo(f.clone()), shared: shared.clone() },
            LimitCtl { obs: None, fifo: Some(f), shared, latest: None, alive: true, lost_on_drop: false },
        )
    } else {
        let obs = Observable::new(0usize);
        let sub = Observable::subscribe(&obs);
        (
            LimitStream { src: LimitSrc::Obs(sub), shared: shared.clone() },
            LimitCtl { obs: Some(obs), fifo: None, shared, latest: None, alive: true, lost_on_drop: false },
        )
    }
}

// ---------------------------------------------------------------------------------------------
// pipeline construction

pub fn mask_pass(mask: u8, key: u8) -> bool {
    mask & (1 << (key % 8)) != 0
}
pub const FILTER_MAP_OFFSET: u8 = 16;

pub struct Built<I> {
    pub initial: Vector<Val>,
    pub stream: BoxS<I>,
    /// taps[0] = source boundary, taps[i] = output of stage i-1
    pub taps: Vec<Rc<RefCell<TapState>>>,
    pub limits: Vec<Option<LimitCtl>>,
    /// C12: for `*_with_initial_*` stages chained "as the adapter itself": the values returned by
    /// into_parts differed from the values returned at construction
    pub into_parts_mismatch: Option<String>,
}

/// Build `stages` on top of `(values, stream)`, with a tap at every boundary.
pub fn build_pipeline<I: DiffItem>(values: Vector<Val>, stream: BoxS<I>, stages: &[Stage], fifo: bool, keep_log: bool) -> Built<I>
{
    let (mut stream, t0) = tap(stream, &values);
    let mut values = values;
    let mut taps = vec![t0];
    let mut limits: Vec<Option<LimitCtl>> = Vec::new();
    let mut mismatch = None;
    for (si, st) in stages.iter().enumerate() {
        let input_tap = taps.last().unwrap().clone();
        if let Some(c) = CmpKind::of(st) {
            input_tap.borrow_mut().sort_guard = Some(c);
        }
        let is_last = si + 1 == stages.len();
        let obs = (values, stream);
        let mut ctl = None;
        let mut bound = None;
        let (v2, s2): (Vector<Val>, BoxS<I>) = match *st {
            Stage::Head(l) => {
                bound = Some(l as usize);
                let (v, s) = obs.head(l as usize);
                (v, Box::pin(s))
            }
            Stage::Tail(l) => {
                bound = Some(l as usize);
                let (v, s) = obs.tail(l as usize);
                (v, Box::pin(s))
            }
            Stage::Skip(c) => {
                let (v, s) = obs.skip(c as usize);
                (v, Box::pin(s))
            }
            Stage::DynHead => {
                let (ls, c) = make_limit(fifo, Some(0), false, input_tap.clone());
                ctl = Some(c);
                let ad = obs.dynamic_head(ls);
                if is_last && !fifo {
                    // used on its own: the view starts empty and is built from the diffs alone
                    // (with a fifo limit stream the stand-alone adapter is taken apart with into_parts
                    // instead, whose values must be that same empty view)
                    (Vector::new(), Box::pin(ad))
                } else {
                    // chained as the adapter itself: the next stage gets what into_parts returns
                    let (v, s) = VectorObserver::into_parts(ad);
                    (v, Box::pin(s))
                }
            }
            Stage::DynTail => {
                let (ls, c) = make_limit(fifo, Some(0), true, input_tap.clone());
                ctl = Some(c);
                let ad = obs.dynamic_tail(ls);
                if is_last && !fifo {
                    // used on its own: the view starts empty and is built from the diffs alone
                    // (with a fifo limit stream the stand-alone adapter is taken apart with into_parts
                    // instead, whose values must be that same empty view)
                    (Vector::new(), Box::pin(ad))
                } else {
                    // chained as the adapter itself: the next stage gets what into_parts returns
                    let (v, s) = VectorObserver::into_parts(ad);
                    (v, Box::pin(s))
                }
            }
            Stage::DynSkip => {
                let (ls, c) = make_limit(fifo, None, false, input_tap.clone());
                ctl = Some(c);
                let ad = obs.dynamic_skip(ls);
                if is_last && !fifo {
                    // used on its own: the view starts empty and is built from the diffs alone
                    // (with a fifo limit stream the stand-alone adapter is taken apart with into_parts
                    // instead, whose values must be that same empty view)
                    (Vector::new(), Box::pin(ad))
                } else {
                    // chained as the adapter itself: the next stage gets what into_parts returns
                    let (v, s) = VectorObserver::into_parts(ad);
                    (v, Box::pin(s))
                }
            }
            Stage::DynHeadInit(l) => {
                let (ls, c) = make_limit(fifo, Some(l as usize), false, input_tap.clone());
                ctl = Some(c);
                let (v, s) = obs.dynamic_head_with_initial_value(l as usize, ls);
                if is_last {
                    (v, Box::pin(s))
                } else {
                    // chained as the adapter itself: the next stage gets what into_parts returns
                    let (v2, s) = VectorObserver::into_parts(s);
                    cmp_values(&v, &v2, st, &mut mismatch);
                    (v2, Box::pin(s))
                }
            }
            Stage::DynTailInit(l) => {
                let (ls, c) = make_limit(fifo, Some(l as usize), true, input_tap.clone());
                ctl = Some(c);
                let (v, s) = obs.dynamic_tail_with_initial_value(l as usize, ls);
                if is_last {
                    (v, Box::pin(s))
                } else {
                    let (v2, s) = VectorObserver::into_parts(s);
                    cmp_values(&v, &v2, st, &mut mismatch);
                    (v2, Box::pin(s))
                }
            }
            Stage::DynSkipInit(cn) => {
                let (ls, c) = make_limit(fifo, Some(cn as usize), false, input_tap.clone());
                ctl = Some(c);
                let (v, s) = obs.dynamic_skip_with_initial_count(cn as usize, ls);
                if is_last {
                    (v, Box::pin(s))
                } else {
                    let (v2, s) = VectorObserver::into_parts(s);
                    cmp_values(&v, &v2, st, &mut mismatch);
                    (v2, Box::pin(s))
                }
            }
            Stage::Filter(mask) => {
                let (v, s) = obs.filter(move |x: &Val| mask_pass(mask, x.key));
                (v, Box::pin(s))
            }
            Stage::FilterMap(mask) => {
                let (v, s) = obs.filter_map(move |x: Val| {
                    if mask_pass(mask, x.key) {
                        Some(Val::new(x.key.wrapping_add(FILTER_MAP_OFFSET), x.id))
                    } else {
                        None
                    }
                });
                (v, Box::pin(s))
            }
            Stage::Sort => {
                let (v, s) = obs.sort();
                (v, Box::pin(s))
            }
            Stage::SortBy => {
                let (v, s) = obs.sort_by(|a: &Val, b: &Val| CmpKind::By.cmp(a.key, b.key));
                (v, Box::pin(s))
            }
            Stage::SortByKey => {
                let (v, s) = obs.sort_by_key(|a: &Val| a.key % 3);
                (v, Box::pin(s))
            }
        };
        let (s3, t) = tap(s2, &v2);
        {
            let mut tb = t.borrow_mut();
            tb.len_bound = bound;
            if let Some(b) = bound {
                if tb.replica.len() > b {
                    tb.bound_broken = Some(format!("initial values have {} items, fixed limit is {}", tb.replica.len(), b));
                }
            }
            tb.keep_log = keep_log && is_last;
        }
        taps.push(t);
        limits.push(ctl);
        values = v2;
        stream = s3;
    }
    if stages.is_empty() {
        taps[0].borrow_mut().keep_log = keep_log;
    }
    Built { initial: values, stream, taps, limits, into_parts_mismatch: mismatch }
}

fn cmp_values(a: &Vector<Val>, b: &Vector<Val>, st: &Stage, out: &mut Option<String>) {
    let am: Vec<MVal> = a.iter().map(|v| v.m()).collect();
    let bm: Vec<MVal> = b.iter().map(|v| v.m()).collect();
    if am != bm && out.is_none() {
        *out = Some(format!("{}: construction returned {:?} but into_parts returns {:?}", st.kind_name(), am, bm));
    }
}


// ---------------------------------------------------------------------------------------------
// lazily converted subscriber handle

use eyeball_im::VectorSubscriber;

pub enum LazyState<I> {
    Handle(VectorSubscriber<Val>, u8, Vec<MVal>),
    Stream(BoxS<I>),
    Empty,
}

/// Keeps the `VectorSubscriber` handle until the first poll, then converts it with the chosen
/// method. `mismatch` is set if a late `into_values_and_*` snapshot differs from `values()`.
pub struct LazySource<I> {
    pub state: LazyState<I>,
    pub mismatch: Rc<RefCell<Option<String>>>,
}

pub trait FromHandle: Sized {
    fn convert(h: VectorSubscriber<Val>, kind: u8, early: &[MVal], mismatch: &Rc<RefCell<Option<String>>>) -> BoxS<Self>;
}
fn note_mismatch(values: &Vector<Val>, early: &[MVal], mismatch: &Rc<RefCell<Option<String>>>) {
    let late: Vec<MVal> = values.iter().map(|v| v.m()).collect();
    if late != early {
        *mismatch.borrow_mut() = Some(format!("values() at subscription gave {:?} but a later into_values_and_stream gave {:?}", early, late));
    }
}
impl FromHandle for Diff {
    fn convert(h: VectorSubscriber<Val>, kind: u8, early: &[MVal], mismatch: &Rc<RefCell<Option<String>>>) -> BoxS<Self> {
        if kind == 1 {
            Box::pin(h.into_stream())
        } else {
            let (values, s) = h.into_values_and_stream();
            note_mismatch(&values, early, mismatch);
            Box::pin(s)
        }
    }
}
impl FromHandle for Vec<Diff> {
    fn convert(h: VectorSubscriber<Val>, kind: u8, early: &[MVal], mismatch: &Rc<RefCell<Option<String>>>) -> BoxS<Self> {
        if kind == 1 {
            Box::pin(h.into_batched_stream())
        } else {
            let (values, s) = h.into_values_and_batched_stream();
            note_mismatch(&values, early, mismatch);
            Box::pin(s)
        }
    }
}

impl<I: FromHandle + 'static> Stream for LazySource<I> {
    type Item = I;
    fn poll_next(mut self: Pin<&mut Self>, cx: &mut Context<'_>) -> Poll<Option<I>> {
        if let LazyState::Handle(..) = self.state {
            let LazyState::Handle(h, kind, early) = std::mem::replace(&mut self.state, LazyState::Empty) else { unreachable!() };
            let s = I::convert(h, kind, &early, &self.mismatch);
            self.state = LazyState::Stream(s);
        }
        match &mut self.state {
            LazyState::Stream(s) => s.as_mut().poll_next(cx),
            _ => Poll::Ready(None),
        }
    }
}
