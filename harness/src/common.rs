//! Shared small utilities: property ids, case outcomes, flag wakers, panic capture.

use std::{
    cell::RefCell,
    panic::{self, AssertUnwindSafe},
    sync::{
        atomic::{AtomicBool, AtomicUsize, Ordering},
        Arc,
    },
    task::{Wake, Waker},
};

#[derive(Clone, Copy, Debug, PartialEq, Eq, Hash, PartialOrd, Ord)]
#[allow(dead_code)]
pub enum Prop {
    C01 = 1,
    C02,
    C03,
    C04,
    C05,
    C06,
    C07,
    C08,
    C09,
    C10,
    C11,
    C12,
    C13,
    C14,
    C15,
    C16,
    C17,
    C18,
    C19,
    C20,
}

impl Prop {
    pub fn parse(s: &str) -> Option<Prop> {
        use Prop::*;
        Some(match s {
            "C01" => C01,
            "C02" => C02,
            "C03" => C03,
            "C04" => C04,
            "C05" => C05,
            "C06" => C06,
            "C07" => C07,
            "C08" => C08,
            "C09" => C09,
            "C10" => C10,
            "C11" => C11,
            "C12" => C12,
            "C13" => C13,
            "C14" => C14,
            "C15" => C15,
            "C16" => C16,
            "C17" => C17,
            "C18" => C18,
            "C19" => C19,
            "C20" => C20,
            _ => return None,
        })
    }
    pub fn name(self) -> String {
        format!("C{:02}", self as u8)
    }
}

/// Why a case stopped early.
#[derive(Debug, Clone)]
pub enum Stop {
    /// An assertion belonging to the property under check failed.
    Violation(String),
    /// An assertion belonging only to *other* properties failed; the case is
    /// abandoned (its later observations would be consequences of that).
    Tainted(String),
    /// The case ran into the exact trigger of a listed known finding.
    Known(&'static str),
    /// The harness itself misbehaved (bug in the harness): never a verdict.
    Internal(String),
}

pub type R<T = ()> = Result<T, Stop>;

/// Per-poll waker that records whether it was woken.
pub struct Flag {
    woken: AtomicBool,
    count: AtomicUsize,
}
impl Flag {
    pub fn new() -> Arc<Flag> {
        Arc::new(Flag { woken: AtomicBool::new(false), count: AtomicUsize::new(0) })
    }
    pub fn woken(&self) -> bool {
        self.woken.load(Ordering::SeqCst)
    }
    pub fn wakes(&self) -> usize {
        self.count.load(Ordering::SeqCst)
    }
}
impl Wake for Flag {
    fn wake(self: Arc<Self>) {
        self.wake_by_ref();
    }
    fn wake_by_ref(self: &Arc<Self>) {
        self.woken.store(true, Ordering::SeqCst);
        self.count.fetch_add(1, Ordering::SeqCst);
    }
}
/// A Pending poll's waker together with its wake count at that time (a waker shared by several
/// polls -- one task driving several streams -- counts as woken only if it fired afterwards).
#[derive(Clone)]
pub struct PendingMark {
    pub flag: Arc<Flag>,
    pub wakes_at: usize,
}
impl PendingMark {
    pub fn new(flag: &Arc<Flag>) -> Self {
        PendingMark { flag: flag.clone(), wakes_at: flag.wakes() }
    }
    pub fn woken(&self) -> bool {
        self.flag.wakes() > self.wakes_at
    }
}

pub fn flag_waker(f: &Arc<Flag>) -> Waker {
    Waker::from(f.clone())
}

thread_local! {
    static LAST_PANIC: RefCell<Option<(String, String)>> = RefCell::new(None);
}

/// Install a quiet panic hook that remembers message and location per thread.
pub fn install_quiet_panic_hook() {
    panic::set_hook(Box::new(|info| {
        let loc = info.location().map(|l| format!("{}:{}", l.file(), l.line())).unwrap_or_default();
        let msg = if let Some(s) = info.payload().downcast_ref::<&str>() {
            (*s).to_string()
        } else if let Some(s) = info.payload().downcast_ref::<String>() {
            s.clone()
        } else {
            "<non-string panic>".to_string()
        };
        let _ = LAST_PANIC.try_with(|p| {
            if let Ok(mut p) = p.try_borrow_mut() {
                *p = Some((msg, loc));
            }
        });
    }));
}

pub struct Caught {
    pub msg: String,
    pub loc: String,
}
impl Caught {
    /// True when the panic originated in harness source (a harness bug), as
    /// opposed to library / dependency code.
    pub fn in_harness(&self) -> bool {
        // the library's bounds panics are #[track_caller]: they carry the harness call site as
        // location but the library's wording ("the length is"; std slices say "the len is")
        if self.msg.starts_with("index out of bounds: the length is") {
            return false;
        }
        self.loc.starts_with("src/") || self.loc.contains("/verif/")
    }
}

pub fn catch<T>(f: impl FnOnce() -> T) -> Result<T, Caught> {
    let _ = LAST_PANIC.try_with(|p| *p.borrow_mut() = None);
    match panic::catch_unwind(AssertUnwindSafe(f)) {
        Ok(v) => Ok(v),
        Err(_) => {
            let (msg, loc) = LAST_PANIC
                .try_with(|p| p.borrow_mut().take())
                .ok()
                .flatten()
                .unwrap_or_else(|| ("<unknown>".into(), String::new()));
            Err(Caught { msg, loc })
        }
    }
}

/// FNV-1a over bytes; used for distinct-case hashing (deterministic, no
/// dependence on std's randomised hasher).
pub fn fnv(bytes: &[u8]) -> u64 {
    let mut h: u64 = 0xcbf29ce484222325;
    for b in bytes {
        h ^= *b as u64;
        h = h.wrapping_mul(0x100000001b3);
    }
    h
}

/// A `tracing` subscriber that enables everything and records nothing: with it installed (scoped to
/// the calling thread) the library's `tracing` instrumentation actually runs.
pub struct TraceAll;
impl tracing::Subscriber for TraceAll {
    fn enabled(&self, _: &tracing::Metadata<'_>) -> bool {
        true
    }
    fn new_span(&self, _: &tracing::span::Attributes<'_>) -> tracing::span::Id {
        tracing::span::Id::from_u64(1)
    }
    fn record(&self, _: &tracing::span::Id, _: &tracing::span::Record<'_>) {}
    fn record_follows_from(&self, _: &tracing::span::Id, _: &tracing::span::Id) {}
    fn event(&self, e: &tracing::Event<'_>) {
        // format the fields like a real subscriber would (the values are evaluated either way)
        struct V;
        impl tracing::field::Visit for V {
            fn record_debug(&mut self, _: &tracing::field::Field, v: &dyn std::fmt::Debug) {
                let _ = format!("{v:?}");
            }
        }
        e.record(&mut V);
    }
    fn enter(&self, _: &tracing::span::Id) {}
    fn exit(&self, _: &tracing::span::Id) {}
}

pub fn with_tracing<T>(f: impl FnOnce() -> T) -> T {
    tracing::subscriber::with_default(TraceAll, f)
}
