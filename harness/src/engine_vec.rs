//! Engine A: interpreter that runs a `VecCase` against the real ObservableVector, its
//! subscribers and adapter pipelines, and against a plain-Vec reference model.

use std::{
    cell::RefCell,
    collections::HashSet,
    rc::Rc,
    sync::Arc,
    task::{Context, Poll},
};

use eyeball_im::{ObservableVector, VectorDiff};
use eyeball_im_util::vector::{VectorObserver, VectorSubscriberExt};
use imbl::Vector;

use crate::{
    campaign::CaseReport,
    common::{catch, flag_waker, fnv, Flag, PendingMark, Prop, Stop, R},
    val::{registry_reset, registry_snapshot, MVal, Val},
    vec_streams::{
        apply_checked, build_pipeline, k1_trigger, mask_pass, mdiff, BoxS, CmpKind, Diff, LazySource, LazyState, LimitCtl, MDiff, TapState,
        FILTER_MAP_OFFSET,
    },
    vec_target::{model_traverse, Act, RVOp, Target},
    vec_types::*,
};

use Prop::*;

struct Msg {
    /// published by a transaction commit
    txn: bool,
    k: usize,
    diffs: Option<Vec<MDiff>>,
}

enum AnyStream {
    U(BoxS<Diff>),
    B(BoxS<Vec<Diff>>),
}

struct Sub {
    spec: SubSpec,
    stream: Option<AnyStream>,
    taps: Vec<Rc<RefCell<TapState>>>,
    limits: Vec<Option<LimitCtl>>,
    next_msg: usize,
    yield_remaining: usize,
    last_pending: Option<PendingMark>,
    ended: bool,
    lagged: bool,
    twin_of: Option<usize>,
    is_twin: bool,
    /// ops (limit change / source op) that arrived while the stream was Pending
    pending_limit_events: u32,
    pending_source_events: u32,
    crossed_boundaries: bool,
    was_full: bool,
    was_not_full: bool,
    late_mismatch: Rc<RefCell<Option<String>>>,
}

#[derive(Default, Debug)]
pub struct Feat {
    pub resets: u32,
    pub mid_subscribe: bool,
    pub multi_txn_commits: u32,
    pub max_backlog_at_poll: usize,
    pub nonlagging_sub_in_reset_case: bool,
    pub txn_abandon_after2: bool,
    pub txn_commit_after_rollback: bool,
    pub txn_clear_after_recorded: bool,
    pub behind_at_drop: bool,
    pub lagged_at_drop: bool,
    pub mid_batch_at_drop: bool,
    pub limit_change_between_polls_with_source_op: bool,
    pub view_full_and_not_full: bool,
    pub filter_flip: bool,
    pub filter_mixed: bool,
    pub sort_ties: bool,
    pub sort_set_moved: bool,
    pub diff_crossed_all: bool,
    pub has_pure_dynamic: bool,
    pub multi_diff_reached_adapter: bool,
    pub limit_and_source_while_pending: bool,
    pub insert_while_full: bool,
    pub oob_calls: u32,
    pub traversal_remove_then_act: bool,
    pub yield_batch_partial: bool,
    pub dropped_with_backlog: bool,
    pub dropped_mid_yield: bool,
    pub dropped_buffered: bool,
    pub txns: u32,
    pub deferred_conversion: bool,
    pub dropped_sub_in_txn: bool,
    pub ops_executed: u32,
    pub polls: u32,
    pub limit_changes: u32,
    pub twin_compared: u32,
}

struct Ck {
    prop: Prop,
    rep: CaseReport,
    f: Feat,
    trusted_log: bool,
    first_stages: Vec<Stage>,
    strict: bool,
    /// C08 only: a published diff was already wrong (the probe's replica diverged); the case goes on
    /// so that the end-of-stream rule can judge the real subscribers, and ends as "other property"
    /// if that rule is satisfied all the same
    deferred_other: Option<String>,
}

impl Ck {
    fn note_set(&mut self, old: u8, new: u8) {
        for st in &self.first_stages {
            match st {
                Stage::Filter(m) | Stage::FilterMap(m) => {
                    if mask_pass(*m, old) != mask_pass(*m, new) {
                        self.f.filter_flip = true;
                    }
                }
                _ => {
                    if let Some(c) = CmpKind::of(st) {
                        if c.cmp(old, new) != std::cmp::Ordering::Equal {
                            self.f.sort_set_moved = true;
                        }
                    }
                }
            }
        }
    }
    fn fail<T>(&self, props: &[Prop], msg: String) -> R<T> {
        if props.contains(&self.prop) {
            Err(Stop::Violation(msg))
        } else {
            Err(Stop::Tainted(msg))
        }
    }
    fn check(&mut self, cond: bool, props: &[Prop], msg: impl FnOnce() -> String) -> R {
        self.rep.checks += 1;
        if cond {
            Ok(())
        } else {
            self.fail(props, msg())
        }
    }
}

struct World {
    ck: Ck,
    vec: Option<ObservableVector<Val>>,
    model: Vec<MVal>,
    capacity: usize,
    next_id: u16,
    msgs: Vec<Msg>,
    top_states: HashSet<u64>,
    probe: Option<(BoxS<Vec<Diff>>, Vec<MVal>)>,
    subs: Vec<Sub>,
    /// a transaction is open (the vector is temporarily moved out of `vec`)
    in_txn: bool,
    shared_flag: Option<Arc<Flag>>,
    txn_had_oob: bool,
}

fn hash_state(v: &[MVal]) -> u64 {
    let mut b = Vec::with_capacity(v.len() * 3);
    for (k, i) in v {
        b.push(*k);
        b.extend_from_slice(&i.to_le_bytes());
    }
    fnv(&b)
}

#[derive(Debug, PartialEq, Clone, Copy)]
enum Outcome {
    Item,
    Pending,
    End,
    Gone,
}

enum ViewExpect {
    Exact(Vec<MVal>),
    Sorted(CmpKind),
}

fn view(stage: &Stage, input: &[MVal], limit: Option<usize>) -> ViewExpect {
    let head = |l: usize| input[..l.min(input.len())].to_vec();
    let tail = |l: usize| input[input.len() - l.min(input.len())..].to_vec();
    let skip = |c: usize| input[c.min(input.len())..].to_vec();
    ViewExpect::Exact(match stage {
        Stage::Head(l) => head(*l as usize),
        Stage::Tail(l) => tail(*l as usize),
        Stage::Skip(c) => skip(*c as usize),
        Stage::DynHead | Stage::DynHeadInit(_) => head(limit.unwrap_or(0)),
        Stage::DynTail | Stage::DynTailInit(_) => tail(limit.unwrap_or(0)),
        Stage::DynSkip | Stage::DynSkipInit(_) => match limit {
            Some(c) => skip(c),
            None => vec![],
        },
        Stage::Filter(mask) => input.iter().copied().filter(|v| mask_pass(*mask, v.0)).collect(),
        Stage::FilterMap(mask) => input
            .iter()
            .copied()
            .filter(|v| mask_pass(*mask, v.0))
            .map(|v| (v.0.wrapping_add(FILTER_MAP_OFFSET), v.1))
            .collect(),
        Stage::Sort => return ViewExpect::Sorted(CmpKind::Ord),
        Stage::SortBy => return ViewExpect::Sorted(CmpKind::By),
        Stage::SortByKey => return ViewExpect::Sorted(CmpKind::Key),
    })
}

fn kind_prop(st: &Stage) -> Prop {
    if st.is_sort() {
        C11
    } else if st.is_hts() {
        C09
    } else {
        C10
    }
}

fn stage_props(spec: &SubSpec, j: usize) -> Vec<Prop> {
    let mut p = vec![];
    if spec.pipeline.len() >= 2 {
        p.push(C12);
    }
    if j == 0 {
        p.push(kind_prop(&spec.pipeline[j]));
    }
    if spec.batched {
        p.push(C13);
    }
    p
}

fn source_props(sub: &Sub) -> Vec<Prop> {
    if sub.lagged {
        vec![C06]
    } else {
        vec![C05, C06]
    }
}

impl World {
    fn new_val(&mut self, key: u8) -> MVal {
        let id = self.next_id;
        self.next_id = self.next_id.wrapping_add(1);
        (key, id)
    }

    fn receivers(&self) -> usize {
        self.subs.iter().filter(|s| s.stream.is_some()).count() + self.probe.is_some() as usize
    }

    // ------------------------------------------------------------------ op resolution

    fn resolve(&mut self, op: &VOp, len: usize) -> RVOp {
        match op {
            VOp::Append(ks) => RVOp::Append(ks.iter().map(|k| self.new_val(*k)).collect()),
            VOp::Clear => RVOp::Clear,
            VOp::PushFront(k) => RVOp::PushFront(self.new_val(*k)),
            VOp::PushBack(k) => RVOp::PushBack(self.new_val(*k)),
            VOp::PopFront => RVOp::PopFront,
            VOp::PopBack => RVOp::PopBack,
            VOp::Insert(ix, k) => RVOp::Insert(frac(*ix, len + 1), self.new_val(*k)),
            VOp::Set(ix, k) => {
                if len == 0 {
                    RVOp::Skip
                } else {
                    RVOp::Set(frac(*ix, len), self.new_val(*k))
                }
            }
            VOp::Remove(ix) => {
                if len == 0 {
                    RVOp::Skip
                } else {
                    RVOp::Remove(frac(*ix, len))
                }
            }
            VOp::Truncate(ix) => RVOp::Truncate(frac(*ix, len + 2)),
            VOp::EntrySet(ix, k) => {
                if len == 0 {
                    RVOp::Skip
                } else {
                    RVOp::EntrySet(frac(*ix, len), self.new_val(*k))
                }
            }
            VOp::EntryRemove(ix) => {
                if len == 0 {
                    RVOp::Skip
                } else {
                    RVOp::EntryRemove(frac(*ix, len))
                }
            }
            VOp::ForEach(ds) | VOp::Entries(ds) => {
                let acts = ds
                    .iter()
                    .map(|d| match d {
                        Dec::Keep => Act::Keep,
                        Dec::Set(k) => Act::Set(self.new_val(*k)),
                        Dec::Remove => Act::Remove,
                        Dec::SetRemove(k) => Act::SetRemove(self.new_val(*k)),
                        Dec::Stop => Act::Stop,
                    })
                    .collect();
                RVOp::Traverse { entries: matches!(op, VOp::Entries(_)), acts }
            }
            VOp::OobInsert(extra, k) => RVOp::OobInsert(len + 1 + *extra as usize, self.new_val(*k)),
            VOp::OobSet(extra, k) => RVOp::OobSet(len + *extra as usize, self.new_val(*k)),
            VOp::OobRemove(extra) => RVOp::OobRemove(len + *extra as usize),
            VOp::OobEntry(extra) => RVOp::OobEntry(len + *extra as usize),
        }
    }
}

/// Execute one resolved op on the library target and on the model; compare return values and
/// contents (C17). Returns the number of diffs the call is expected to record/broadcast.
fn exec_rvop<T: Target>(ck: &mut Ck, target: &mut T, model: &mut Vec<MVal>, op: &RVOp, in_txn: bool) -> R<usize> {
    let p17 = [C17];
    let eff = match op {
        RVOp::Skip => 0,
        RVOp::Append(vs) => {
            target.t_append(vs.iter().map(|m| Val::from_m(*m)).collect::<Vector<Val>>());
            model.extend(vs.iter().copied());
            1
        }
        RVOp::Clear => {
            let was_empty = model.is_empty();
            target.t_clear();
            model.clear();
            if in_txn || !was_empty {
                1
            } else {
                0
            }
        }
        RVOp::PushFront(m) => {
            target.t_push_front(Val::from_m(*m));
            model.insert(0, *m);
            1
        }
        RVOp::PushBack(m) => {
            target.t_push_back(Val::from_m(*m));
            model.push(*m);
            1
        }
        RVOp::PopFront => {
            let got = target.t_pop_front().map(|v| v.m());
            let exp = if model.is_empty() { None } else { Some(model.remove(0)) };
            ck.check(got == exp, &p17, || format!("pop_front returned {:?}, a plain vector gives {:?}", got, exp))?;
            exp.is_some() as usize
        }
        RVOp::PopBack => {
            let got = target.t_pop_back().map(|v| v.m());
            let exp = model.pop();
            ck.check(got == exp, &p17, || format!("pop_back returned {:?}, a plain vector gives {:?}", got, exp))?;
            exp.is_some() as usize
        }
        RVOp::Insert(i, m) => {
            target.t_insert(*i, Val::from_m(*m));
            model.insert(*i, *m);
            1
        }
        RVOp::Set(i, m) => {
            let got = target.t_set(*i, Val::from_m(*m)).m();
            let exp = std::mem::replace(&mut model[*i], *m);
            ck.note_set(exp.0, m.0);
            ck.check(got == exp, &p17, || format!("set({i}) returned {:?}, a plain vector gives {:?}", got, exp))?;
            1
        }
        RVOp::Remove(i) => {
            let got = target.t_remove(*i).m();
            let exp = model.remove(*i);
            ck.check(got == exp, &p17, || format!("remove({i}) returned {:?}, a plain vector gives {:?}", got, exp))?;
            1
        }
        RVOp::Truncate(n) => {
            let e = (*n < model.len()) as usize;
            target.t_truncate(*n);
            if *n < model.len() {
                model.truncate(*n);
            }
            e
        }
        RVOp::EntrySet(i, m) => {
            let (idx, cur, old) = target.t_entry_set(*i, Val::from_m(*m));
            let old = old.m();
            let exp = std::mem::replace(&mut model[*i], *m);
            ck.note_set(exp.0, m.0);
            let pe: &[Prop] = if in_txn { &[C17, C07] } else { &[C17] };
            ck.check(idx == *i && cur == exp && old == exp, pe, || {
                format!("entry({i}): index {idx}, deref {:?}, set returned {:?}; expected index {i}, value {:?}", cur, old, exp)
            })?;
            1
        }
        RVOp::EntryRemove(i) => {
            let (idx, cur, old) = target.t_entry_remove(*i);
            let old = old.m();
            let exp = model.remove(*i);
            let pe: &[Prop] = if in_txn { &[C17, C07] } else { &[C17] };
            ck.check(idx == *i && cur == exp && old == exp, pe, || {
                format!("entry({i}): index {idx}, deref {:?}, remove returned {:?}; expected index {i}, value {:?}", cur, old, exp)
            })?;
            1
        }
        RVOp::Traverse { entries, acts } => {
            let got = target.t_traverse(*entries, acts);
            let (exp, eff) = model_traverse(model, *entries, acts);
            let pt: &[Prop] = if in_txn { &[C17, C07] } else { &[C17] };
            ck.check(got == exp, pt, || format!("traversal visited {:?}, expected {:?}", got, exp))?;
            let mut prev_removed = false;
            for v in &exp {
                if prev_removed && (v.set_ret.is_some() || v.rem_ret.is_some()) {
                    ck.f.traversal_remove_then_act = true;
                }
                prev_removed = v.rem_ret.is_some();
            }
            eff
        }
        RVOp::OobInsert(..) | RVOp::OobSet(..) | RVOp::OobRemove(_) | RVOp::OobEntry(_) => {
            ck.f.oob_calls += 1;
            let r = catch(|| match op {
                RVOp::OobInsert(i, m) => target.t_insert(*i, Val::from_m(*m)),
                RVOp::OobSet(i, m) => drop(target.t_set(*i, Val::from_m(*m))),
                RVOp::OobRemove(i) => drop(target.t_remove(*i)),
                RVOp::OobEntry(i) => target.t_entry_probe(*i),
                _ => unreachable!(),
            });
            ck.check(r.is_err(), &p17, || format!("out-of-range call {:?} on a vector of {} items did not panic", op, model.len()))?;
            0
        }
    };
    let got = target.contents();
    ck.check(got == *model, &[C17, C05, C07], || format!("after {:?}: contents {:?}, a plain vector gives {:?}", op, got, model))?;
    Ok(eff)
}

impl World {
    // ------------------------------------------------------------------ probe / message log

    /// Poll the probe once; returns the diffs of the item it delivered, if any.
    fn poll_probe(&mut self, after_oob: bool) -> R<Option<Vec<MDiff>>> {
        let Some((stream, replica)) = self.probe.as_mut() else { return Ok(None) };
        let flag = Flag::new();
        let waker = flag_waker(&flag);
        let mut cx = Context::from_waker(&waker);
        match stream.as_mut().poll_next(&mut cx) {
            Poll::Pending => Ok(None),
            Poll::Ready(None) => {
                if self.vec.is_some() {
                    self.ck.fail(&[C08], "a batched stream ended while its ObservableVector is alive".into())
                } else {
                    Ok(None)
                }
            }
            Poll::Ready(Some(item)) => {
                let mds: Vec<MDiff> = item.iter().map(mdiff).collect();
                for d in &mds {
                    if let Err(e) = apply_checked(d, replica) {
                        // after an out-of-range call nobody may have been notified of anything: C17's too
                        let props: &[Prop] = if after_oob { &[C05, C06, C07, C17] } else { &[C05, C06, C07] };
                        return self.ck.fail(props, format!("diff not applicable to the replica of an up-to-date batched subscriber: {e}"));
                    }
                }
                Ok(Some(mds))
            }
        }
    }

    /// Called after every top-level operation on the vector. `direct_msgs`: Some(n) for a direct
    /// call that must have broadcast exactly n single-diff messages; None for a transaction
    /// (`committed` tells which end it had).
    fn after_source_op(&mut self, direct_msgs: Option<usize>, committed: bool, predicted_k: usize, what: &str) -> R {
        let had_oob = std::mem::take(&mut self.txn_had_oob);
        if self.probe.is_some() {
            let item = self.poll_probe(had_oob)?;
            let replica_ok = self.probe.as_ref().map(|p| p.1 == self.model).unwrap_or(true);
            match direct_msgs {
                Some(n) => {
                    let lag_reset = matches!(item.as_deref(), Some([VectorDiff::Reset { .. }])) && n > self.capacity;
                    if lag_reset {
                        for _ in 0..n {
                            self.msgs.push(Msg { txn: false, k: 1, diffs: None });
                        }
                    } else {
                        let d = item.as_ref().map_or(0, |v| v.len());
                        self.ck.check(d == n, &[C05, C17], || {
                            format!("{what}: an up-to-date subscriber received {d} diffs ({:?}), expected exactly {n} (one per effective call, none for a documented no-op or a panicking call)", item)
                        })?;
                        for md in item.unwrap_or_default() {
                            self.msgs.push(Msg { txn: false, k: 1, diffs: Some(vec![md]) });
                        }
                    }
                    if !replica_ok && self.ck.prop == C08 {
                        self.defer_probe_mismatch(what);
                    } else {
                        self.ck.check(replica_ok, &[C05, C06], || {
                            format!("{what}: replica of an up-to-date subscriber {:?} != vector contents {:?}", self.probe.as_ref().unwrap().1, self.model)
                        })?;
                    }
                }
                None => {
                    if let Some(ds) = item {
                        self.ck.check(committed, &[C07], || format!("{what}: an abandoned transaction published {:?}", ds))?;
                        self.ck.check(!ds.is_empty(), &[C07, C13], || format!("{what}: subscribers received an empty batch"))?;
                        if ds.len() >= 2 {
                            self.ck.f.multi_txn_commits += 1;
                        }
                        self.msgs.push(Msg { txn: true, k: ds.len(), diffs: Some(ds) });
                    }
                    // the probe is a batched subscriber with an empty pipeline: C13's business too
                    let props: &[Prop] = if had_oob { &[C05, C06, C07, C13, C17] } else { &[C05, C06, C07, C13] };
                    if !replica_ok && self.ck.prop == C08 {
                        self.defer_probe_mismatch(what);
                    } else {
                        self.ck.check(replica_ok, props, || {
                            format!("{what}: replica of an up-to-date subscriber {:?} != vector contents {:?}", self.probe.as_ref().unwrap().1, self.model)
                        })?;
                    }
                }
            }
        } else if self.receivers() > 0 {
            // no probe: the message log is predicted from the documented behaviour
            match direct_msgs {
                Some(n) => {
                    for _ in 0..n {
                        self.msgs.push(Msg { txn: false, k: 1, diffs: None });
                    }
                }
                None => {
                    if committed && predicted_k > 0 {
                        if predicted_k >= 2 {
                            self.ck.f.multi_txn_commits += 1;
                        }
                        self.msgs.push(Msg { txn: true, k: predicted_k, diffs: None });
                    }
                }
            }
        }
        self.top_states.insert(hash_state(&self.model));
        // events for wake / limit bookkeeping
        for s in &mut self.subs {
            if s.last_pending.is_some() {
                s.pending_source_events += 1;
            }
        }
        self.drain_eager()?;
        self.compare_twins()
    }

    fn drain_eager(&mut self) -> R {
        for i in 0..self.subs.len() {
            if self.subs[i].spec.policy == Policy::Eager {
                self.drain(i, 10_000)?;
            }
        }
        Ok(())
    }

    fn bounded_drains(&mut self, upcoming: usize) -> R {
        for i in 0..self.subs.len() {
            let s = &self.subs[i];
            if s.spec.policy == Policy::Bounded && s.stream.is_some() && !s.ended {
                let backlog = self.msgs.len() - s.next_msg;
                if backlog + upcoming > self.capacity {
                    self.drain(i, 10_000)?;
                }
            }
        }
        Ok(())
    }

    /// After the vector was dropped and every stream drained to its end: twins must still agree.
    fn compare_twins_final(&mut self) -> R {
        for i in 0..self.subs.len() {
            if let Some(j) = self.subs[i].twin_of {
                if self.subs[i].lagged || self.subs[j].lagged || self.subs[i].stream.is_none() || self.subs[j].stream.is_none() {
                    continue;
                }
                let a = self.subs[i].taps.last().unwrap().borrow().log.clone();
                let b = self.subs[j].taps.last().unwrap().borrow().log.clone();
                self.ck.f.twin_compared += 1;
                self.ck.check(a == b, &[C13], || format!("after the end of both streams the unbatched twin received {:?}, the batched stream (flattened) {:?}", a, b))?;
            }
        }
        Ok(())
    }

    fn compare_twins(&mut self) -> R {
        for i in 0..self.subs.len() {
            if let Some(j) = self.subs[i].twin_of {
                if self.subs[i].stream.is_none() || self.subs[j].stream.is_none() {
                    continue;
                }
                if self.subs[i].lagged || self.subs[j].lagged || self.subs[i].spec.policy != Policy::Eager {
                    continue;
                }
                let a = self.subs[i].taps.last().unwrap().borrow();
                let b = self.subs[j].taps.last().unwrap().borrow();
                self.ck.f.twin_compared += 1;
                let same = a.log == b.log;
                let msg = if same { String::new() } else { format!("unbatched twin received {:?}, batched stream (flattened) {:?}", a.log, b.log) };
                drop(a);
                drop(b);
                self.ck.check(same, &[C13], || msg)?;
            }
        }
        Ok(())
    }

    // ------------------------------------------------------------------ top-level steps

    fn step(&mut self, op: &Op) -> R {
        self.ck.f.ops_executed += 1;
        match op {
            Op::V(vop) => {
                if self.vec.is_none() {
                    return Ok(());
                }
                let len = self.model.len();
                let upcoming = match vop {
                    VOp::ForEach(_) | VOp::Entries(_) => 2 * len,
                    _ => 1,
                };
                self.bounded_drains(upcoming)?;
                let mut vop = vop.clone();
                self.avoid_k2(&mut vop, len, None);
                let r = self.resolve(&vop, len);
                if matches!(r, RVOp::OobInsert(..) | RVOp::OobSet(..) | RVOp::OobRemove(_) | RVOp::OobEntry(_)) {
                    self.txn_had_oob = true;
                }
                let eff = exec_rvop(&mut self.ck, self.vec.as_mut().unwrap(), &mut self.model, &r, false)?;
                self.after_source_op(Some(eff), false, 0, &format!("{:?}", r))
            }
            Op::Txn { body, end } => {
                if self.vec.is_none() {
                    return Ok(());
                }
                self.bounded_drains(1)?;
                self.ck.f.txns += 1;
                let receivers = self.receivers();
                let pre = self.model.clone();
                let mut working = pre.clone();
                let mut batch = 0usize;
                let mut effective_since_start = 0usize;
                let mut rolled_back = false;
                let mut receivers_gone = receivers == 0;
                // resolve lazily: each op is resolved against the working copy
                let mut vec = self.vec.take().unwrap();
                self.in_txn = true;
                let res: R = (|| {
                    let mut txn = vec.transaction();
                    for t in body {
                        match t {
                            TOp::Rollback => {
                                txn.rollback();
                                working = pre.clone();
                                batch = 0;
                                rolled_back = true;
                            }
                            TOp::DropSub(ix) => {
                                let live: Vec<usize> = (0..self.subs.len())
                                    .filter(|i| self.subs[*i].stream.is_some() && !self.subs[*i].is_twin && self.subs[*i].twin_of.is_none())
                                    .collect();
                                if !live.is_empty() {
                                    let i = live[frac8(*ix, live.len())];
                                    self.subs[i].stream = None;
                                    self.ck.f.dropped_sub_in_txn = true;
                                    if self.receivers() == 0 {
                                        receivers_gone = true;
                                    }
                                }
                            }
                            TOp::Poll(ix) => {
                                let live: Vec<usize> = (0..self.subs.len()).filter(|i| self.subs[*i].stream.is_some() && !self.subs[*i].ended).collect();
                                if !live.is_empty() {
                                    // nothing of the open transaction may be visible: the usual
                                    // checks run against the pre-transaction contents
                                    self.poll_once(live[frac8(*ix, live.len())])?;
                                }
                            }
                            TOp::V(vop) => {
                                let mut vop = vop.clone();
                                self.avoid_k2(&mut vop, working.len(), Some(&working));
                                let r = self.resolve(&vop, working.len());
                                if matches!(r, RVOp::OobInsert(..) | RVOp::OobSet(..) | RVOp::OobRemove(_) | RVOp::OobEntry(_)) {
                                    self.txn_had_oob = true;
                                }
                                let eff = exec_rvop(&mut self.ck, &mut txn, &mut working, &r, true)?;
                                if receivers_gone {
                                    // no receiver left: the library records nothing any more
                                    if matches!(r, RVOp::Clear) {
                                        batch = 0;
                                    }
                                } else if matches!(r, RVOp::Clear) {
                                    if batch > 0 {
                                        self.ck.f.txn_clear_after_recorded = true;
                                    }
                                    batch = 1;
                                } else {
                                    batch += eff;
                                }
                                effective_since_start += eff;
                            }
                        }
                        // through the handle the pending changes are visible
                        let seen: Vec<MVal> = txn.iter().map(|v| v.m()).collect();
                        self.ck.check(seen == working, &[C07, C17], || format!("transaction handle shows {:?}, working contents are {:?}", seen, working))?;
                    }
                    match end {
                        TxnEnd::Commit => {
                            txn.commit();
                            if rolled_back && batch > 0 {
                                self.ck.f.txn_commit_after_rollback = true;
                            }
                        }
                        TxnEnd::Drop => {
                            drop(txn);
                            if effective_since_start >= 2 {
                                self.ck.f.txn_abandon_after2 = true;
                            }
                        }
                    }
                    Ok(())
                })();
                self.vec = Some(vec);
                self.in_txn = false;
                res?;
                let committed = *end == TxnEnd::Commit;
                if committed {
                    self.model = working;
                }
                let got = self.vec.as_ref().unwrap().contents();
                self.ck.check(got == self.model, &[C07], || {
                    format!("after transaction ({:?}): contents {:?}, expected {:?}", end, got, self.model)
                })?;
                if committed {
                    }
                let k = if receivers > 0 { batch } else { 0 };
                self.after_source_op(None, committed, k, &format!("transaction {:?} ending in {:?}", body, end))
            }
            Op::Subscribe(spec) => self.subscribe(spec.clone(), true),
            Op::SetLimit { sub, stage, value } => self.set_limit(*sub, *stage, *value),
            Op::DropLimit { sub, stage } => {
                if let Some((i, j)) = self.find_limit(*sub, *stage) {
                    let ctl = self.subs[i].limits[j].as_mut().unwrap();
                    if ctl.alive {
                        ctl.close();
                    }
                    if self.subs[i].spec.policy == Policy::Eager {
                        self.drain(i, 10_000)?;
                    }
                }
                Ok(())
            }
            Op::Poll { sub, mode } => {
                let live: Vec<usize> = (0..self.subs.len()).filter(|i| self.subs[*i].stream.is_some() && !self.subs[*i].ended).collect();
                if live.is_empty() {
                    return Ok(());
                }
                let i = live[frac8(*sub, live.len())];
                let backlog = self.msgs.len() - self.subs[i].next_msg;
                self.ck.f.max_backlog_at_poll = self.ck.f.max_backlog_at_poll.max(backlog);
                match mode {
                    PollMode::Once => {
                        self.poll_once(i)?;
                    }
                    PollMode::K(n) => {
                        for _ in 0..*n {
                            if self.poll_once(i)? != Outcome::Item {
                                break;
                            }
                        }
                    }
                    PollMode::UntilPending => self.drain(i, 10_000)?,
                }
                Ok(())
            }
            Op::DropSub(sub) => {
                let live: Vec<usize> =
                    (0..self.subs.len()).filter(|i| self.subs[*i].stream.is_some() && !self.subs[*i].is_twin && self.subs[*i].twin_of.is_none()).collect();
                if live.is_empty() {
                    return Ok(());
                }
                let i = live[frac8(*sub, live.len())];
                let s = &mut self.subs[i];
                if self.msgs.len() > s.next_msg {
                    self.ck.f.dropped_with_backlog = true;
                }
                if s.yield_remaining > 0 {
                    self.ck.f.dropped_mid_yield = true;
                }
                s.stream = None;
                Ok(())
            }
        }
    }

    /// K2 avoidance: a non-benign truncate that will reach a sort stage directly is replaced by
    /// pop_back (counted).
    fn avoid_k2(&mut self, vop: &mut VOp, len: usize, working: Option<&Vec<MVal>>) {
        if self.ck.strict {
            return;
        }
        if let VOp::Truncate(ix) = vop {
            let m = frac(*ix, len + 2);
            if m == 0 || m >= len {
                return;
            }
            let contents = working.unwrap_or(&self.model);
            for s in &self.subs {
                if s.stream.is_none() {
                    continue;
                }
                if let Some(first) = s.spec.pipeline.first() {
                    if let Some(cmp) = CmpKind::of(first) {
                        let benign = contents[..m].iter().all(|k| contents[m..].iter().all(|r| cmp.cmp(k.0, r.0) == std::cmp::Ordering::Less));
                        if !benign {
                            *vop = VOp::PopBack;
                            self.ck.rep.excluded_known += 1;
                            return;
                        }
                    }
                }
            }
        }
    }

    fn find_limit(&self, sub: u8, stage: u8) -> Option<(usize, usize)> {
        let cands: Vec<(usize, usize)> = self
            .subs
            .iter()
            .enumerate()
            .filter(|(_, s)| s.stream.is_some() && !s.ended)
            .flat_map(|(i, s)| s.limits.iter().enumerate().filter(|(_, l)| l.is_some()).map(move |(j, _)| (i, j)))
            .collect();
        if cands.is_empty() {
            return None;
        }
        let n = cands.len();
        Some(cands[(frac8(sub, n) + stage as usize) % n])
    }

    fn set_limit(&mut self, sub: u8, stage: u8, value: Ix) -> R {
        let Some((i, j)) = self.find_limit(sub, stage) else { return Ok(()) };
        let s = &mut self.subs[i];
        let ctl = s.limits[j].as_mut().unwrap();
        if !ctl.alive {
            return Ok(());
        }
        let len = s.taps[j].borrow().replica.len();
        let mut new = frac(value, len + 4);
        if s.spec.pipeline[j].is_tail() {
            let old = ctl.pending_old().unwrap_or(0);
            if k1_trigger(old, len, new) && !self.ck.strict {
                new = 0;
                self.ck.rep.excluded_known += 1;
            }
        }
        ctl.announce(new);
        self.ck.f.limit_changes += 1;
        if s.last_pending.is_some() {
            s.pending_limit_events += 1;
            if s.pending_source_events > 0 {
                self.ck.f.limit_change_between_polls_with_source_op = true;
            }
        }
        if s.spec.policy == Policy::Eager {
            self.drain(i, 10_000)?;
        }
        Ok(())
    }

    // ------------------------------------------------------------------ subscribing

    fn subscribe(&mut self, spec: SubSpec, mid: bool) -> R {
        let Some(vec) = self.vec.as_ref() else { return Ok(()) };
        if self.subs.iter().filter(|s| s.stream.is_some()).count() >= 6 {
            return Ok(());
        }
        if mid && self.ck.f.ops_executed > 1 {
            self.ck.f.mid_subscribe = true;
        }
        let twin = spec.twin && spec.batched && !spec.pipeline.iter().any(|s| s.is_dynamic());
        let mut spec = spec;
        spec.twin = twin;
        // twins are compared after every operation when eager, otherwise only once both streams
        // have been drained at the end of the case
        let _ = twin;
        let keep_log = twin;
        let late_mismatch: Rc<RefCell<Option<String>>> = Rc::new(RefCell::new(None));
        let (stream, taps, limits, mismatch) = if spec.convert == 0 || twin {
            if spec.batched {
                let (values, stream) = VectorObserver::into_parts(vec.subscribe().batched());
                let b = build_pipeline::<Vec<Diff>>(values, Box::pin(stream), &spec.pipeline, spec.fifo, keep_log);
                (AnyStream::B(b.stream), b.taps, b.limits, b.into_parts_mismatch)
            } else {
                let (values, stream) = VectorObserver::into_parts(vec.subscribe());
                let b = build_pipeline::<Diff>(values, Box::pin(stream), &spec.pipeline, spec.fifo, keep_log);
                (AnyStream::U(b.stream), b.taps, b.limits, b.into_parts_mismatch)
            }
        } else {
            // keep the handle: snapshot now, conversion to a stream at the first poll
            self.ck.f.deferred_conversion = true;
            let h = vec.subscribe();
            let values = h.values();
            let early: Vec<MVal> = values.iter().map(|v| v.m()).collect();
            let kind = if spec.convert % 2 == 1 { 1 } else { 2 };
            if spec.batched {
                let src = LazySource::<Vec<Diff>> { state: LazyState::Handle(h, kind, early), mismatch: late_mismatch.clone() };
                let b = build_pipeline::<Vec<Diff>>(values, Box::pin(src), &spec.pipeline, spec.fifo, keep_log);
                (AnyStream::B(b.stream), b.taps, b.limits, b.into_parts_mismatch)
            } else {
                let src = LazySource::<Diff> { state: LazyState::Handle(h, kind, early), mismatch: late_mismatch.clone() };
                let b = build_pipeline::<Diff>(values, Box::pin(src), &spec.pipeline, spec.fifo, keep_log);
                (AnyStream::U(b.stream), b.taps, b.limits, b.into_parts_mismatch)
            }
        };
        if let Some(st) = spec.pipeline.first() {
            self.ck.first_stages.push(*st);
        }
        if spec.pipeline.iter().any(|s| s.is_pure_dynamic()) {
            self.ck.f.has_pure_dynamic = true;
        }
        let idx = self.subs.len();
        self.subs.push(Sub {
            spec: spec.clone(),
            stream: Some(stream),
            taps,
            limits,
            next_msg: self.msgs.len(),
            yield_remaining: 0,
            last_pending: None,
            ended: false,
            lagged: false,
            twin_of: None,
            is_twin: false,
            pending_limit_events: 0,
            pending_source_events: 0,
            crossed_boundaries: false,
            was_full: false,
            was_not_full: false,
            late_mismatch: late_mismatch.clone(),
        });
        if let Some(m) = mismatch {
            return self.ck.fail(&[C12], m);
        }
        // the snapshot and the initial values of every stage are already the right views
        let t0 = self.subs[idx].taps[0].borrow().replica.clone();
        self.ck.check(t0 == self.model, &[C05, C06], || format!("subscription snapshot {:?} != contents {:?}", t0, self.model))?;
        self.check_taps(idx)?;
        self.check_views(idx, true, true)?;
        if twin {
            let mut tspec = spec.clone();
            tspec.batched = false;
            tspec.twin = false;
            let (values, stream) = VectorObserver::into_parts(self.vec.as_ref().unwrap().subscribe());
            let b = build_pipeline::<Diff>(values, Box::pin(stream), &tspec.pipeline, tspec.fifo, true);
            self.subs.push(Sub {
                spec: tspec,
                stream: Some(AnyStream::U(b.stream)),
                taps: b.taps,
                limits: b.limits,
                next_msg: self.msgs.len(),
                yield_remaining: 0,
                last_pending: None,
                ended: false,
                lagged: false,
                twin_of: Some(idx),
                is_twin: true,
                pending_limit_events: 0,
                pending_source_events: 0,
                crossed_boundaries: false,
                was_full: false,
                was_not_full: false,
                late_mismatch: Rc::new(RefCell::new(None)),
            });
        }
        Ok(())
    }

    // ------------------------------------------------------------------ polling

    fn drain(&mut self, i: usize, max: usize) -> R {
        for _ in 0..max {
            match self.poll_once(i)? {
                Outcome::Item => {}
                _ => return Ok(()),
            }
        }
        self.ck.fail(&[C05, C06, C09, C10, C11, C12, C13], format!("a stream yielded more than {max} items without becoming Pending"))
    }

    /// C08: remember the divergence, resynchronise the probe's replica, carry on.
    fn defer_probe_mismatch(&mut self, what: &str) {
        let msg = format!("{what}: replica of an up-to-date subscriber {:?} != vector contents {:?}", self.probe.as_ref().unwrap().1, self.model);
        if self.ck.deferred_other.is_none() {
            self.ck.deferred_other = Some(msg);
        }
        let m = self.model.clone();
        self.probe.as_mut().unwrap().1 = m;
    }

    fn check_taps(&mut self, i: usize) -> R {
        let sub = &self.subs[i];
        if let Some(m) = sub.late_mismatch.borrow().clone() {
            return self.ck.fail(&[C05], m);
        }
        if !self.ck.strict {
            for l in sub.limits.iter().flatten() {
                if let Some(k) = l.shared.borrow().known_hit {
                    return Err(Stop::Known(k));
                }
            }
            for t in &sub.taps {
                if let Some(k) = t.borrow().known_hit {
                    return Err(Stop::Known(k));
                }
            }
        }
        for (j, t) in sub.taps.iter().enumerate() {
            let tb = t.borrow();
            self.ck.rep.checks += 1;
            if let Some(e) = &tb.error {
                let props = if j == 0 { vec![C05, C06, C07, C08] } else { stage_props(&sub.spec, j - 1) };
                let place = if j == 0 { "subscriber stream".to_string() } else { format!("stage {} ({})", j - 1, sub.spec.pipeline[j - 1].kind_name()) };
                return self.ck.fail(&props, format!("{place} emitted a diff that is not applicable to the view built so far: {e}"));
            }
            if let Some(b) = &tb.bound_broken {
                return self.ck.fail(&[C15], format!("stage {} ({}): {b}", j - 1, sub.spec.pipeline[j - 1].kind_name()));
            }
            if tb.insert_while_full {
                self.ck.f.insert_while_full = true;
            }
            if tb.empty_batch {
                let props = if j == 0 { vec![C07, C13] } else { vec![C13] };
                return self.ck.fail(&props, format!("an empty batch was emitted at boundary {j}"));
            }
        }
        Ok(())
    }

    /// Stage-local view check: replica_j+1 == view(stage_j, replica_j).
    fn check_views(&mut self, i: usize, initial: bool, quiescent: bool) -> R {
        let n = self.subs[i].spec.pipeline.len();
        for j in 0..n {
            let sub = &self.subs[i];
            let st = sub.spec.pipeline[j];
            let input = sub.taps[j].borrow().replica.clone();
            let output = sub.taps[j + 1].borrow().replica.clone();
            // at a quiescent point the latest announced limit must have been taken up; after a
            // single batch only the limits delivered so far count
            let limit = sub.limits[j].as_ref().and_then(|l| if quiescent { l.effective() } else { l.shared.borrow().delivered });
            let props = stage_props(&sub.spec, j);
            let when = if initial { "initial values" } else { "view" };
            match view(&st, &input, limit) {
                ViewExpect::Exact(exp) => {
                    if st.is_hts() {
                        let bound = match st {
                            Stage::Skip(_) | Stage::DynSkip | Stage::DynSkipInit(_) => None,
                            Stage::Head(l) | Stage::Tail(l) => Some(l as usize),
                            _ => limit,
                        };
                        if let Some(b) = bound {
                            if input.len() >= b && b > 0 {
                                self.subs[i].was_full = true;
                            } else {
                                self.subs[i].was_not_full = true;
                            }
                        }
                    }
                    if let Stage::Filter(m) | Stage::FilterMap(m) = st {
                        let pass = input.iter().filter(|v| mask_pass(m, v.0)).count();
                        if pass > 0 && pass < input.len() {
                            self.ck.f.filter_mixed = true;
                        }
                    }
                    self.ck.check(output == exp, &props, || {
                        format!("stage {j} ({}, limit {:?}): {when} {:?}, expected {:?} for input {:?}", st.kind_name(), limit, output, exp, input)
                    })?;
                }
                ViewExpect::Sorted(cmp) => {
                    let mut a = input.clone();
                    let mut b = output.clone();
                    a.sort();
                    b.sort();
                    self.ck.check(a == b, &props, || {
                        format!("stage {j} ({}): {when} {:?} is not a permutation of the input {:?}", st.kind_name(), output, input)
                    })?;
                    let sorted = output.windows(2).all(|w| cmp.cmp(w[0].0, w[1].0) != std::cmp::Ordering::Greater);
                    self.ck.check(sorted, &props, || format!("stage {j} ({}): {when} {:?} is not ordered", st.kind_name(), output))?;
                    if output.windows(2).any(|w| cmp.cmp(w[0].0, w[1].0) == std::cmp::Ordering::Equal) {
                        self.ck.f.sort_ties = true;
                    }
                }
            }
        }
        Ok(())
    }

    fn poll_once(&mut self, i: usize) -> R<Outcome> {
        if self.subs[i].stream.is_none() || self.subs[i].ended {
            return Ok(Outcome::Gone);
        }
        self.ck.f.polls += 1;
        let vec_alive = self.vec.is_some() || self.in_txn;
        let flag = self.shared_flag.clone().unwrap_or_else(Flag::new);
        let waker = flag_waker(&flag);
        let mut cx = Context::from_waker(&waker);
        let (res, prev, t0_ended_before) = {
            let sub = &mut self.subs[i];
            for t in &sub.taps {
                let mut tb = t.borrow_mut();
                tb.polled.clear();
                tb.pending_this_poll = false;
            }
            let prev = sub.last_pending.take();
            let t0e = sub.taps[0].borrow().ended;
            let res = match sub.stream.as_mut().unwrap() {
                AnyStream::U(s) => match s.as_mut().poll_next(&mut cx) {
                    Poll::Pending => Outcome::Pending,
                    Poll::Ready(None) => Outcome::End,
                    Poll::Ready(Some(_)) => Outcome::Item,
                },
                AnyStream::B(s) => match s.as_mut().poll_next(&mut cx) {
                    Poll::Pending => Outcome::Pending,
                    Poll::Ready(None) => Outcome::End,
                    Poll::Ready(Some(_)) => Outcome::Item,
                },
            };
            (res, prev, t0e)
        };
        // known findings first: everything after one is a consequence
        self.check_taps(i)?;

        // C14: never ready again without the waker of the last Pending poll having been woken
        if res != Outcome::Pending {
            if let Some(p) = &prev {
                let sub = &self.subs[i];
                let mut props = vec![C14];
                if !vec_alive && sub.spec.pipeline.is_empty() {
                    props.push(C08);
                }
                let what = if res == Outcome::End { "the end of the stream" } else { "an item" };
                self.ck.check(p.woken(), &props, || {
                    format!(
                        "subscriber {i} (pipeline {:?}, batched {}): poll returned {what} although the waker of its previous Pending poll was never woken",
                        sub.spec.pipeline, sub.spec.batched
                    )
                })?;
                if sub.pending_limit_events > 0 && sub.pending_source_events > 0 {
                    self.ck.f.limit_and_source_while_pending = true;
                }
            }
            let sub = &mut self.subs[i];
            sub.pending_limit_events = 0;
            sub.pending_source_events = 0;
        } else {
            let sub = &mut self.subs[i];
            if prev.is_none() {
                sub.pending_limit_events = 0;
                sub.pending_source_events = 0;
            }
            sub.last_pending = Some(PendingMark::new(&flag));
        }


        let n_stages = self.subs[i].spec.pipeline.len();
        if n_stages > 0 && res == Outcome::Item {
            let all = self.subs[i].taps.iter().all(|t| !t.borrow().polled.is_empty());
            if all {
                self.subs[i].crossed_boundaries = true;
                if n_stages >= 2 {
                    self.ck.f.diff_crossed_all = true;
                }
            }
            if self.subs[i].taps[0].borrow().polled.iter().any(|it| it.len() >= 2) {
                self.ck.f.multi_diff_reached_adapter = true;
            }
        }

        // mirror of the broadcast receiver + per-message checks at the source boundary
        self.process_source_items(i)?;

        let t0_ended = self.subs[i].taps[0].borrow().ended;
        match res {
            Outcome::Pending => {
                if !vec_alive {
                    let props = if t0_ended { stage_props(&self.subs[i].spec, 0) } else { vec![C08] };
                    return self.ck.fail(&props, format!("subscriber {i}: stream is Pending although the ObservableVector was dropped"));
                }
                // every stage's input must itself have reported Pending during this poll: an
                // adapter that says Pending while the stage below still has items hides updates
                // (walk from the outermost stage down: stage j returned Pending iff everything
                // above it did; the first one whose own input did not is the culprit)
                let n_st = self.subs[i].spec.pipeline.len();
                for j in (0..n_st).rev() {
                    let below_pending = self.subs[i].taps[j].borrow().pending_this_poll;
                    if !below_pending {
                        let mut props = stage_props(&self.subs[i].spec, j);
                        props.push(C14);
                        let st = self.subs[i].spec.pipeline[j];
                        return self.ck.fail(&props, format!("stage {j} ({}) returned Pending without its input stream having returned Pending in that poll (items may still be queued and no waker is registered there)", st.kind_name()));
                    }
                }
                let (t0, props) = {
                    let sub = &self.subs[i];
                    (sub.taps[0].borrow().replica.clone(), source_props(sub))
                };
                self.ck.check(t0 == self.model, &props, || {
                    format!("subscriber {i} is Pending but its replica {:?} != vector contents {:?}", t0, self.model)
                })?;
                self.check_views(i, false, true)?;
                let s = &self.subs[i];
                if s.was_full && s.was_not_full {
                    self.ck.f.view_full_and_not_full = true;
                }
            }
            Outcome::Item => {
                if self.subs[i].spec.batched {
                    // every emitted batch leaves every stage a correct view of the stage below,
                    // and the source replica is a state the vector had between top-level operations
                    let t0 = self.subs[i].taps[0].borrow().replica.clone();
                    self.ck.check(self.top_states.contains(&hash_state(&t0)), &[C13, C07], || {
                        format!("batched subscriber {i}: after a batch its source replica {:?} is not a state the vector had between top-level operations", t0)
                    })?;
                    self.check_views(i, false, false)?;
                }
            }
            Outcome::End => {
                let sub = &self.subs[i];
                if !t0_ended {
                    let props = stage_props(&sub.spec, 0);
                    return self.ck.fail(&props, format!("subscriber {i}: adapter stream ended although the source stream has not ended"));
                }
                if vec_alive {
                    return self.ck.fail(&[C08], format!("subscriber {i}: stream ended while the ObservableVector is alive"));
                }
                let t0 = sub.taps[0].borrow().replica.clone();
                let props: &[Prop] = if sub.lagged { &[C08] } else { &[C08, C05] };
                self.ck.check(t0 == self.model, props, || {
                    format!("subscriber {i}: stream ended with replica {:?}, final contents were {:?}", t0, self.model)
                })?;
                self.check_views(i, false, true)?;
                self.subs[i].ended = true;
            }
            Outcome::Gone => {}
        }
        if t0_ended && !t0_ended_before && res != Outcome::End {
            let props = stage_props(&self.subs[i].spec, 0);
            return self.ck.fail(&props, format!("subscriber {i}: source stream ended but the adapter returned {:?} instead of ending", res));
        }
        Ok(res)
    }

    fn process_source_items(&mut self, i: usize) -> R {
        let items: Vec<Vec<MDiff>> = std::mem::take(&mut self.subs[i].taps[0].borrow_mut().polled);
        if items.is_empty() {
            return Ok(());
        }
        let batched = self.subs[i].spec.batched;
        let trusted = self.ck.trusted_log;
        for item in &items {
            let is_reset = item.len() == 1 && matches!(item[0], VectorDiff::Reset { .. });
            if is_reset {
                let backlog = self.msgs.len() - self.subs[i].next_msg;
                self.ck.f.resets += 1;
                if trusted {
                    self.ck.check(backlog > self.capacity, &[C06, C05], || {
                        format!("subscriber {i} received a Reset with only {backlog} update(s) pending (capacity {})", self.capacity)
                    })?;
                } else if backlog <= self.capacity {
                    return Err(Stop::Tainted("reset without lag in a case without probe".into()));
                }
                if let VectorDiff::Reset { values } = &item[0] {
                    let vals: Vec<MVal> = values.iter().copied().collect();
                    // the newest update was a commit: its published state is also C07's business
                    let gone = self.vec.is_none() && !self.in_txn;
                    let props: &[Prop] = match (self.msgs.last().map_or(false, |m| m.txn), gone) {
                        (true, true) => &[C06, C07, C08],
                        (true, false) => &[C06, C07],
                        (false, true) => &[C06, C08],
                        (false, false) => &[C06],
                    };
                    self.ck.check(vals == self.model, props, || {
                        format!("subscriber {i}: Reset carries {:?} but the vector contains {:?}", vals, self.model)
                    })?;
                }
                let s = &mut self.subs[i];
                s.next_msg = self.msgs.len();
                s.yield_remaining = 0;
                s.lagged = true;
                continue;
            }
            if batched {
                let from = self.subs[i].next_msg;
                let pending = &self.msgs[from..];
                let total: usize = pending.iter().map(|m| m.k).sum();
                if trusted {
                    self.ck.check(!pending.is_empty(), &[C05, C06], || format!("batched subscriber {i} received {:?} although no update was pending", item))?;
                    self.ck.check(item.len() == total, &[C05, C06], || {
                        format!("batched subscriber {i} received {} diffs, the pending updates hold {total}", item.len())
                    })?;
                    if pending.iter().all(|m| m.diffs.is_some()) {
                        let concat: Vec<MDiff> = pending.iter().flat_map(|m| m.diffs.clone().unwrap()).collect();
                        self.ck.check(*item == concat, &[C05], || {
                            format!("batched subscriber {i} received {:?}, the concatenated diffs are {:?}", item, concat)
                        })?;
                    }
                }
                self.subs[i].next_msg = self.msgs.len();
            } else {
                let d = &item[0];
                let s = &self.subs[i];
                if s.yield_remaining > 0 {
                    let m = &self.msgs[s.next_msg - 1];
                    let idx = m.k - s.yield_remaining;
                    if let (true, Some(ds)) = (trusted, &m.diffs) {
                        let same = ds.get(idx) == Some(d);
                        let exp = ds.get(idx).cloned();
                        self.ck.check(same, &[C05], || format!("subscriber {i} received {:?}, another subscriber received {:?} for the same update", d, exp))?;
                    }
                    self.subs[i].yield_remaining -= 1;
                } else {
                    if s.next_msg >= self.msgs.len() {
                        if trusted {
                            return self.ck.fail(&[C05, C06], format!("subscriber {i} received {:?} although no update was pending", d));
                        }
                        return Err(Stop::Tainted("diff without logged message in a case without probe".into()));
                    }
                    let m = &self.msgs[s.next_msg];
                    if let (true, Some(ds)) = (trusted, &m.diffs) {
                        let same = ds.first() == Some(d);
                        let exp = ds.first().cloned();
                        self.ck.check(same, &[C05], || format!("subscriber {i} received {:?}, another subscriber received {:?} for the same update", d, exp))?;
                    }
                    let k = m.k;
                    let s = &mut self.subs[i];
                    s.next_msg += 1;
                    s.yield_remaining = k.saturating_sub(1);
                    if s.yield_remaining > 0 {
                        self.ck.f.yield_batch_partial = true;
                    }
                }
            }
        }
        if batched {
            // each item of the batched stream brings its subscriber fully up to date
            let t0 = self.subs[i].taps[0].borrow().replica.clone();
            self.ck.check(t0 == self.model, &[C06, C13], || {
                format!("batched subscriber {i}: after an item its replica {:?} != vector contents {:?}", t0, self.model)
            })?;
        }
        Ok(())
    }
}

// ---------------------------------------------------------------------------------------------

fn nontrivial(prop: Prop, f: &Feat) -> bool {
    match prop {
        C05 => f.mid_subscribe && f.multi_txn_commits >= 1 && f.max_backlog_at_poll >= 2,
        C06 => f.resets >= 1 && f.nonlagging_sub_in_reset_case,
        C07 => f.txn_abandon_after2 || f.txn_commit_after_rollback || f.txn_clear_after_recorded,
        C08 => f.behind_at_drop,
        C09 => f.view_full_and_not_full && (f.limit_change_between_polls_with_source_op || f.limit_changes == 0 && f.ops_executed >= 3),
        C10 => f.filter_mixed && (f.filter_flip || f.resets >= 1),
        C11 => f.sort_ties && f.sort_set_moved,
        C12 => f.diff_crossed_all,
        C13 => f.multi_diff_reached_adapter || (f.multi_txn_commits >= 1 && f.twin_compared > 0),
        C14 => f.limit_and_source_while_pending || (f.limit_changes == 0 && f.polls >= 4),
        C15 => f.insert_while_full,
        C17 => f.oob_calls >= 1 && f.traversal_remove_then_act,
        C20 => f.yield_batch_partial || f.dropped_with_backlog || f.dropped_mid_yield || f.lagged_at_drop || f.dropped_sub_in_txn,
        _ => true,
    }
}

fn classes(f: &Feat, case: &VecCase) -> Vec<&'static str> {
    let mut c = vec![];
    if f.resets > 0 {
        c.push("has_reset_from_lag");
    }
    if f.multi_txn_commits > 0 {
        c.push("has_committed_multi_diff_transaction");
    }
    if f.mid_subscribe {
        c.push("has_mid_history_subscription");
    }
    if f.limit_change_between_polls_with_source_op {
        c.push("limit_change_and_source_op_between_two_polls");
    }
    if f.limit_changes > 0 {
        c.push("has_limit_change");
    }
    if f.txn_abandon_after2 {
        c.push("txn_abandoned_after_2_effective_ops");
    }
    if f.txn_commit_after_rollback {
        c.push("txn_commit_after_rollback");
    }
    if f.behind_at_drop {
        c.push("subscriber_behind_when_vector_dropped");
    }
    if f.lagged_at_drop {
        c.push("subscriber_beyond_capacity_when_vector_dropped");
    }
    if f.mid_batch_at_drop {
        c.push("subscriber_mid_batch_when_vector_dropped");
    }
    if f.yield_batch_partial {
        c.push("multi_diff_message_consumed_across_polls");
    }
    if f.oob_calls > 0 {
        c.push("has_out_of_range_call");
    }
    if f.view_full_and_not_full {
        c.push("view_full_and_not_full");
    }
    if f.diff_crossed_all {
        c.push("diff_crossed_every_stage_boundary");
    }
    if f.sort_ties {
        c.push("sorted_view_with_ties");
    }
    if f.filter_mixed {
        c.push("filter_keeps_some_drops_some");
    }
    if f.insert_while_full {
        c.push("insert_while_bounded_view_full");
    }
    if f.limit_and_source_while_pending {
        c.push("limit_change_and_source_op_while_pending");
    }
    if f.twin_compared > 0 {
        c.push("batched_vs_unbatched_twin_compared");
    }
    if !case.probe {
        c.push("no_probe_subscriber");
    }
    if f.deferred_conversion {
        c.push("subscriber_handle_converted_to_stream_later");
    }
    if case.final_drop {
        c.push("vector_dropped_at_end");
    }
    if case.shared_waker {
        c.push("one_waker_shared_by_all_polls");
    }
    c
}

pub fn run(case: &VecCase, prop: Prop) -> R<CaseReport> {
    registry_reset();
    let res = run_inner(case, prop);
    // everything the engine created is gone here
    let snap = registry_snapshot();
    match res {
        Ok((mut rep, f)) => {
            rep.checks += 2;
            if !snap.errors.is_empty() {
                let msg = format!("value lifecycle error: {}", snap.errors.join("; "));
                return if prop == C20 { Err(Stop::Violation(msg)) } else { Err(Stop::Tainted(msg)) };
            }
            if snap.live != 0 {
                let msg = format!(
                    "{} value instance(s) still alive after every vector, subscriber, stream and diff was dropped (created {}, clones {}, drops {})",
                    snap.live, snap.created, snap.clones, snap.drops
                );
                return if prop == C20 { Err(Stop::Violation(msg)) } else { Err(Stop::Tainted(msg)) };
            }
            rep.nontrivial = nontrivial(prop, &f);
            rep.classes = classes(&f, case);
            Ok(rep)
        }
        Err(e) => Err(e),
    }
}

fn run_inner(case: &VecCase, prop: Prop) -> R<(CaseReport, Feat)> {
    let capacity = case.capacity.max(1);
    let mut vec: ObservableVector<Val> = ObservableVector::with_capacity(capacity);
    let mut w = World {
        ck: Ck { prop, rep: CaseReport::default(), f: Feat::default(), trusted_log: case.probe, first_stages: vec![], strict: case.strict, deferred_other: None },
        vec: None,
        model: vec![],
        capacity,
        next_id: 0,
        msgs: vec![],
        top_states: HashSet::new(),
        probe: None,
        subs: vec![],
        in_txn: false,
        shared_flag: if case.shared_waker { Some(Flag::new()) } else { None },
        txn_had_oob: false,
    };
    let init: Vec<MVal> = case.initial.iter().map(|k| w.new_val(*k)).collect();
    if !init.is_empty() {
        vec.append(init.iter().map(|m| Val::from_m(*m)).collect());
    }
    w.model = init;
    if case.probe {
        let (values, stream) = vec.subscribe().into_values_and_batched_stream();
        let replica: Vec<MVal> = values.iter().map(|v| v.m()).collect();
        w.probe = Some((Box::pin(stream), replica));
    }
    w.vec = Some(vec);
    w.top_states.insert(hash_state(&w.model));
    for s in &case.subs {
        w.subscribe(s.clone(), false)?;
    }
    for op in &case.ops {
        w.step(op)?;
    }
    // ---- finale
    if case.final_drop {
        for s in &w.subs {
            if s.stream.is_some() && !s.ended {
                let backlog = w.msgs.len() - s.next_msg;
                if backlog > 0 || s.yield_remaining > 0 {
                    w.ck.f.behind_at_drop = true;
                }
                if backlog > w.capacity {
                    w.ck.f.lagged_at_drop = true;
                }
                if s.yield_remaining > 0 {
                    w.ck.f.mid_batch_at_drop = true;
                }
            }
        }
        w.vec = None;
        for s in &mut w.subs {
            if s.last_pending.is_some() {
                s.pending_source_events += 1;
            }
        }
        // the probe must end too
        if let Some((stream, _)) = w.probe.as_mut() {
            let flag = Flag::new();
            let waker = flag_waker(&flag);
            let mut cx = Context::from_waker(&waker);
            let r = stream.as_mut().poll_next(&mut cx);
            w.ck.check(matches!(r, Poll::Ready(None)), &[C08], || "an up-to-date batched stream did not end after the vector was dropped".to_string())?;
        }
        for i in 0..w.subs.len() {
            if w.subs[i].stream.is_some() && !w.subs[i].ended {
                w.drain(i, 10_000)?;
                let ended = w.subs[i].ended;
                w.ck.check(ended, &[C08], || format!("subscriber {i}: stream did not end after the vector was dropped"))?;
            }
        }
        w.compare_twins_final()?;
    } else {
        for i in 0..w.subs.len() {
            if w.subs[i].stream.is_some() && !w.subs[i].ended {
                w.drain(i, 10_000)?;
            }
        }
        w.compare_twins_final()?;
    }
    if w.ck.f.resets > 0 && w.subs.iter().any(|s| !s.lagged && !s.is_twin) {
        w.ck.f.nonlagging_sub_in_reset_case = true;
    }
    let World { ck, .. } = w;
    if let Some(msg) = ck.deferred_other {
        // (C08 only) the end-of-stream rules were satisfied although a published diff was wrong
        return Err(Stop::Tainted(msg));
    }
    Ok((ck.rep, ck.f))
}

/// Greedy structural shrinking (for cases that did not come out of proptest: fuzz artifacts,
/// enumerated cases): drop operations, subscribers and initial items, shorten payloads, as long
/// as the case still violates the property.
pub fn shrink(case: &VecCase, prop: Prop) -> VecCase {
    let fails = |c: &VecCase| matches!(crate::campaign::guarded(c, &|c: &VecCase| run(c, prop)), Err(Stop::Violation(_)));
    let mut cur = case.clone();
    if !fails(&cur) {
        return cur;
    }
    let mut progress = true;
    let mut budget = 20_000;
    while progress && budget > 0 {
        progress = false;
        let mut i = 0;
        while i < cur.ops.len() && budget > 0 {
            budget -= 1;
            let mut c = cur.clone();
            c.ops.remove(i);
            if fails(&c) {
                cur = c;
                progress = true;
            } else {
                i += 1;
            }
        }
        let mut i = 0;
        while i < cur.subs.len() && budget > 0 {
            budget -= 1;
            let mut c = cur.clone();
            c.subs.remove(i);
            if fails(&c) {
                cur = c;
                progress = true;
            } else {
                i += 1;
            }
        }
        let mut i = 0;
        while i < cur.initial.len() && budget > 0 {
            budget -= 1;
            let mut c = cur.clone();
            c.initial.remove(i);
            if fails(&c) {
                cur = c;
                progress = true;
            } else {
                i += 1;
            }
        }
        // shorten Append payloads and transaction bodies
        for i in 0..cur.ops.len() {
            loop {
                if budget == 0 {
                    break;
                }
                budget -= 1;
                let mut c = cur.clone();
                let changed = match &mut c.ops[i] {
                    Op::V(VOp::Append(v)) if !v.is_empty() => {
                        v.pop();
                        true
                    }
                    Op::Txn { body, .. } if !body.is_empty() => {
                        body.pop();
                        true
                    }
                    _ => false,
                };
                if changed && fails(&c) {
                    cur = c;
                    progress = true;
                } else {
                    break;
                }
            }
        }
        for flag in 0..2 {
            let mut c = cur.clone();
            if flag == 0 && c.final_drop {
                c.final_drop = false;
            } else if flag == 1 && c.capacity != 16 {
                c.capacity = 16;
            } else {
                continue;
            }
            budget -= 1;
            if fails(&c) {
                cur = c;
                progress = true;
            }
        }
    }
    cur
}
