//! proptest strategies for engine A cases, parameterised per property.

use proptest::{collection::vec, prelude::*, sample::select};

use crate::vec_types::*;

#[derive(Clone, Debug)]
pub enum Pipes {
    /// raw subscribers only
    None,
    /// exactly one stage drawn from this list of kinds
    Single(Vec<StageKind>),
    /// 2..=3 stages from all kinds
    Chain,
    /// 0..=3 stages from all kinds
    Any,
}

#[derive(Clone, Copy, Debug, PartialEq)]
pub enum StageKind {
    Head,
    Tail,
    Skip,
    DynHead,
    DynTail,
    DynSkip,
    DynHeadInit,
    DynTailInit,
    DynSkipInit,
    Filter,
    FilterMap,
    Sort,
    SortBy,
    SortByKey,
}

pub const HTS: [StageKind; 9] = [
    StageKind::Head,
    StageKind::Tail,
    StageKind::Skip,
    StageKind::DynHead,
    StageKind::DynTail,
    StageKind::DynSkip,
    StageKind::DynHeadInit,
    StageKind::DynTailInit,
    StageKind::DynSkipInit,
];
pub const STATIC_HT: [StageKind; 2] = [StageKind::Head, StageKind::Tail];
pub const FILTERS: [StageKind; 2] = [StageKind::Filter, StageKind::FilterMap];
pub const SORTS: [StageKind; 3] = [StageKind::Sort, StageKind::SortBy, StageKind::SortByKey];
pub const ALL_KINDS: [StageKind; 14] = [
    StageKind::Head,
    StageKind::Tail,
    StageKind::Skip,
    StageKind::DynHead,
    StageKind::DynTail,
    StageKind::DynSkip,
    StageKind::DynHeadInit,
    StageKind::DynTailInit,
    StageKind::DynSkipInit,
    StageKind::Filter,
    StageKind::FilterMap,
    StageKind::Sort,
    StageKind::SortBy,
    StageKind::SortByKey,
];
pub const FIXED_KINDS: [StageKind; 8] = [
    StageKind::Head,
    StageKind::Tail,
    StageKind::Skip,
    StageKind::Filter,
    StageKind::FilterMap,
    StageKind::Sort,
    StageKind::SortBy,
    StageKind::SortByKey,
];

#[derive(Clone, Debug)]
pub struct GenCfg {
    pub max_initial: usize,
    pub max_ops: usize,
    pub capacities: Vec<usize>,
    pub pipes: Pipes,
    /// 0 = never batched, 100 = always
    pub batched_pct: u32,
    pub policies: Vec<Policy>,
    pub initial_subs: (usize, usize),
    pub w_vop: u32,
    pub w_txn: u32,
    pub w_subscribe: u32,
    pub w_limit: u32,
    pub w_poll: u32,
    pub w_dropsub: u32,
    pub oob: bool,
    pub traversal: bool,
    pub probe_pct: u32,
    pub twin: bool,
    pub final_drop_pct: u32,
    pub max_txn_body: usize,
    /// largest Append payload (default 4; the large-vectors phase goes past imbl's 64-item chunk)
    pub max_append: usize,
}

impl Default for GenCfg {
    fn default() -> Self {
        GenCfg {
            max_initial: 8,
            max_ops: 24,
            capacities: vec![1, 2, 3, 4, 5, 7, 16, 64],
            pipes: Pipes::None,
            batched_pct: 40,
            policies: vec![Policy::Eager, Policy::Lazy, Policy::Bounded],
            initial_subs: (0, 3),
            w_vop: 10,
            w_txn: 3,
            w_subscribe: 1,
            w_limit: 0,
            w_poll: 4,
            w_dropsub: 1,
            oob: false,
            traversal: true,
            probe_pct: 85,
            twin: false,
            final_drop_pct: 50,
            max_txn_body: 6,
            max_append: 4,
        }
    }
}

fn key() -> impl Strategy<Value = u8> {
    0u8..8
}

fn dec() -> impl Strategy<Value = Dec> {
    prop_oneof![
        3 => Just(Dec::Keep),
        2 => key().prop_map(Dec::Set),
        2 => Just(Dec::Remove),
        1 => key().prop_map(Dec::SetRemove),
        1 => Just(Dec::Stop),
    ]
}

pub fn vop(oob: bool, traversal: bool, max_append: usize) -> BoxedStrategy<VOp> {
    let append = if max_append > 4 {
        prop_oneof![3 => vec(key(), 0..=4), 1 => vec(key(), 0..=max_append), 1 => vec(key(), 60..=max_append.max(70))].boxed()
    } else {
        vec(key(), 0..=4).boxed()
    };
    let mut alts: Vec<(u32, BoxedStrategy<VOp>)> = vec![
        (2, append.prop_map(VOp::Append).boxed()),
        (1, Just(VOp::Clear).boxed()),
        (3, key().prop_map(VOp::PushFront).boxed()),
        (3, key().prop_map(VOp::PushBack).boxed()),
        (2, Just(VOp::PopFront).boxed()),
        (2, Just(VOp::PopBack).boxed()),
        (4, (any::<u16>(), key()).prop_map(|(i, k)| VOp::Insert(i, k)).boxed()),
        (4, (any::<u16>(), key()).prop_map(|(i, k)| VOp::Set(i, k)).boxed()),
        (4, any::<u16>().prop_map(VOp::Remove).boxed()),
        (2, any::<u16>().prop_map(VOp::Truncate).boxed()),
        (1, (any::<u16>(), key()).prop_map(|(i, k)| VOp::EntrySet(i, k)).boxed()),
        (1, any::<u16>().prop_map(VOp::EntryRemove).boxed()),
    ];
    if traversal {
        alts.push((1, vec(dec(), 0..=8).prop_map(VOp::ForEach).boxed()));
        alts.push((1, vec(dec(), 0..=8).prop_map(VOp::Entries).boxed()));
    }
    if oob {
        alts.push((1, (0u8..3, key()).prop_map(|(e, k)| VOp::OobInsert(e, k)).boxed()));
        alts.push((1, (0u8..3, key()).prop_map(|(e, k)| VOp::OobSet(e, k)).boxed()));
        alts.push((1, (0u8..3).prop_map(VOp::OobRemove).boxed()));
        alts.push((1, (0u8..3).prop_map(VOp::OobEntry).boxed()));
    }
    proptest::strategy::Union::new_weighted(alts).boxed()
}

fn stage_of(kind: StageKind) -> BoxedStrategy<Stage> {
    let lim = || prop_oneof![5 => 0u8..=10, 1 => 11u8..=250];
    match kind {
        StageKind::Head => lim().prop_map(Stage::Head).boxed(),
        StageKind::Tail => lim().prop_map(Stage::Tail).boxed(),
        StageKind::Skip => lim().prop_map(Stage::Skip).boxed(),
        StageKind::DynHead => Just(Stage::DynHead).boxed(),
        StageKind::DynTail => Just(Stage::DynTail).boxed(),
        StageKind::DynSkip => Just(Stage::DynSkip).boxed(),
        StageKind::DynHeadInit => lim().prop_map(Stage::DynHeadInit).boxed(),
        StageKind::DynTailInit => lim().prop_map(Stage::DynTailInit).boxed(),
        StageKind::DynSkipInit => lim().prop_map(Stage::DynSkipInit).boxed(),
        StageKind::Filter => any::<u8>().prop_map(Stage::Filter).boxed(),
        StageKind::FilterMap => any::<u8>().prop_map(Stage::FilterMap).boxed(),
        StageKind::Sort => Just(Stage::Sort).boxed(),
        StageKind::SortBy => Just(Stage::SortBy).boxed(),
        StageKind::SortByKey => Just(Stage::SortByKey).boxed(),
    }
}

fn stage_from(kinds: Vec<StageKind>) -> BoxedStrategy<Stage> {
    select(kinds).prop_flat_map(stage_of).boxed()
}

fn pipeline(p: &Pipes, fixed_only: bool) -> BoxedStrategy<Vec<Stage>> {
    let all = if fixed_only { FIXED_KINDS.to_vec() } else { ALL_KINDS.to_vec() };
    match p {
        Pipes::None => Just(vec![]).boxed(),
        Pipes::Single(kinds) => stage_from(kinds.clone()).prop_map(|s| vec![s]).boxed(),
        Pipes::Chain => vec(stage_from(all), 2..=3).boxed(),
        Pipes::Any => vec(stage_from(all), 0..=3).boxed(),
    }
}

pub fn subspec(cfg: &GenCfg) -> BoxedStrategy<SubSpec> {
    let twin = cfg.twin;
    let batched_pct = cfg.batched_pct;
    (pipeline(&cfg.pipes, twin), 0u32..100, select(cfg.policies.clone()), any::<bool>(), 0u32..100, 0u8..6)
        .prop_map(move |(pipeline, b, policy, fifo, t, cv)| SubSpec {
            batched: b < batched_pct,
            pipeline,
            policy,
            fifo,
            twin: twin && t < 70,
            convert: if cv < 3 { 0 } else { cv - 2 },
        })
        .boxed()
}

fn top(cfg: &GenCfg) -> BoxedStrategy<Op> {
    let mut alts: Vec<(u32, BoxedStrategy<Op>)> = vec![];
    if cfg.w_vop > 0 {
        alts.push((cfg.w_vop, vop(cfg.oob, cfg.traversal, cfg.max_append).prop_map(Op::V).boxed()));
    }
    if cfg.w_txn > 0 {
        let t = prop_oneof![
            16 => vop(cfg.oob, cfg.traversal, cfg.max_append).prop_map(TOp::V),
            2 => Just(TOp::Rollback),
            1 => any::<u8>().prop_map(TOp::DropSub),
            1 => any::<u8>().prop_map(TOp::Poll),
        ];
        alts.push((
            cfg.w_txn,
            (vec(t, 0..=cfg.max_txn_body), prop_oneof![3 => Just(TxnEnd::Commit), 1 => Just(TxnEnd::Drop)])
                .prop_map(|(body, end)| Op::Txn { body, end })
                .boxed(),
        ));
    }
    if cfg.w_subscribe > 0 {
        alts.push((cfg.w_subscribe, subspec(cfg).prop_map(Op::Subscribe).boxed()));
    }
    if cfg.w_limit > 0 {
        alts.push((
            cfg.w_limit,
            prop_oneof![
                12 => (any::<u8>(), 0u8..3, any::<u16>()).prop_map(|(sub, stage, value)| Op::SetLimit { sub, stage, value }),
                1 => (any::<u8>(), 0u8..3).prop_map(|(sub, stage)| Op::DropLimit { sub, stage }),
            ]
            .boxed(),
        ));
    }
    if cfg.w_poll > 0 {
        let mode = prop_oneof![
            3 => Just(PollMode::Once),
            4 => Just(PollMode::UntilPending),
            2 => (1u8..4).prop_map(PollMode::K),
        ];
        alts.push((cfg.w_poll, (any::<u8>(), mode).prop_map(|(sub, mode)| Op::Poll { sub, mode }).boxed()));
    }
    if cfg.w_dropsub > 0 {
        alts.push((cfg.w_dropsub, any::<u8>().prop_map(Op::DropSub).boxed()));
    }
    proptest::strategy::Union::new_weighted(alts).boxed()
}

pub fn case(cfg: &GenCfg) -> BoxedStrategy<VecCase> {
    let probe_pct = cfg.probe_pct;
    let fd = cfg.final_drop_pct;
    (
        select(cfg.capacities.clone()),
        vec(key(), 0..=cfg.max_initial),
        0u32..100,
        vec(subspec(cfg), cfg.initial_subs.0..=cfg.initial_subs.1),
        vec(top(cfg), 0..=cfg.max_ops),
        0u32..100,
    )
        .prop_map(move |(capacity, initial, p, subs, ops, d)| VecCase { capacity, initial, probe: p < probe_pct, subs, ops, final_drop: d < fd, strict: false, shared_waker: d % 4 == 0 })
        .boxed()
}
