use std::path::PathBuf;

use evv::{
    checks,
    common::{install_quiet_panic_hook, Prop},
    ctx::{Ctx, Tier},
};

fn usage() -> ! {
    eprintln!("usage: evv check <Cxx> <quick|thorough> | evv replay <Cxx> <file>");
    std::process::exit(2);
}

fn main() {
    let args: Vec<String> = std::env::args().collect();
    if args.len() < 4 {
        usage();
    }
    let Some(prop) = Prop::parse(&args[2]) else { usage() };
    let seed: u64 = std::env::var("VERIF_SEED").ok().and_then(|s| s.trim().parse::<i64>().ok()).map(|v| v as u64).unwrap_or(0);
    let verif_dir = PathBuf::from(std::env::var("VERIF_DIR").unwrap_or_else(|_| "/verif".into()));
    install_quiet_panic_hook();
    match args[1].as_str() {
        "check" => {
            let tier = match args[3].as_str() {
                "quick" => Tier::Quick,
                "thorough" => Tier::Thorough,
                _ => usage(),
            };
            let mut ctx = Ctx::new(prop, tier, seed, verif_dir);
            checks::run_check(&mut ctx);
            std::process::exit(ctx.finish());
        }
        "replay" => {
            let mut ctx = Ctx::new(prop, Tier::Quick, seed, verif_dir);
            checks::replay_one(&mut ctx, std::path::Path::new(&args[3]));
            // replay does not rewrite the evidence file
            for (m, p) in &ctx.violations {
                println!("VIOLATION property={} replay={}", prop.name(), p.display());
                println!("  {m}");
            }
            if !ctx.violations.is_empty() {
                std::process::exit(1);
            }
            if !ctx.inconclusive.is_empty() {
                for m in &ctx.inconclusive {
                    eprintln!("INCONCLUSIVE: {m}");
                }
                std::process::exit(2);
            }
            println!("OK replay passes");
        }
        "mirirun" => {
            // evv mirirun <Cxx> <n>: n generated cases on the calling thread (meant to run under
            // `cargo +nightly miri run`): Miri reports undefined behaviour in the library's unsafe
            // code, the engines report semantic violations.
            let n: u32 = args[3].parse().unwrap_or(100);
            let code = evv::checks::mirirun(prop, n, seed);
            std::process::exit(code);
        }
        "shrink" => {
            // evv shrink <Cxx> <vec replay file>: greedy deletion shrinking, prints the smaller case
            let path = std::path::Path::new(&args[3]);
            if let Some((_p, _e, case)) = evv::ctx::load_replay::<evv::vec_types::VecCase>(path) {
                let small = evv::engine_vec::shrink(&case, prop);
                println!("{}", serde_json::to_string(&small).unwrap());
            } else {
                eprintln!("not a vec replay");
                std::process::exit(2);
            }
        }
        _ => usage(),
    }
}
