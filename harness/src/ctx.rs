//! Check context: runs phases (random campaigns, enumerations, replays), accumulates evidence,
//! writes replay files and the evidence JSON, prints VIOLATION / KNOWN-FINDING lines.

use std::{
    fmt::Debug,
    path::{Path, PathBuf},
    time::Instant,
};

use proptest::strategy::Strategy;
use serde::{de::DeserializeOwned, Serialize};
use serde_json::json;

use crate::{
    campaign::{campaign, guarded, run_enumerated, Acc, CaseReport},
    common::{fnv, Prop, Stop},
};

#[derive(Clone, Copy, PartialEq, Eq, Debug)]
pub enum Tier {
    Quick,
    Thorough,
}

pub struct Ctx {
    pub prop: Prop,
    pub tier: Tier,
    pub seed: u64,
    pub threads: usize,
    pub verif_dir: PathBuf,
    pub acc: Acc,
    pub phases: Vec<serde_json::Value>,
    pub violations: Vec<(String, PathBuf)>,
    pub known_lines: Vec<String>,
    pub exhaustive_spaces: Vec<String>,
    pub rule: String,
    pub assumptions: Vec<String>,
    pub extra: serde_json::Map<String, serde_json::Value>,
    pub inconclusive: Vec<String>,
    start: Instant,
}

impl Ctx {
    pub fn new(prop: Prop, tier: Tier, seed: u64, verif_dir: PathBuf) -> Self {
        let threads = std::env::var("VERIF_THREADS")
            .ok()
            .and_then(|s| s.parse().ok())
            .unwrap_or_else(|| std::thread::available_parallelism().map(|n| n.get()).unwrap_or(4).min(16));
        Ctx {
            prop,
            tier,
            seed,
            threads,
            verif_dir,
            acc: Acc::default(),
            phases: vec![],
            violations: vec![],
            known_lines: vec![],
            exhaustive_spaces: vec![],
            rule: String::new(),
            assumptions: vec![],
            extra: Default::default(),
            inconclusive: vec![],
            start: Instant::now(),
        }
    }

    pub fn pick(&self, quick: u64, thorough: u64) -> u64 {
        match self.tier {
            Tier::Quick => quick,
            Tier::Thorough => thorough,
        }
    }

    pub fn failed(&self) -> bool {
        !self.violations.is_empty()
    }

    pub fn write_replay<C: Serialize>(&mut self, engine: &str, case: &C, message: &str, origin: &str) -> PathBuf {
        let body = json!({
            "property": self.prop.name(),
            "engine": engine,
            "message": message,
            "origin": origin,
            "case": case,
        });
        let text = serde_json::to_string_pretty(&body).unwrap();
        let dir = self.verif_dir.join("replays").join("found");
        let _ = std::fs::create_dir_all(&dir);
        let path = dir.join(format!("{}-{}-{:016x}.json", self.prop.name(), engine, fnv(text.as_bytes())));
        let _ = std::fs::write(&path, text);
        path
    }

    pub fn absorb(&mut self, name: &str, acc: Acc, extra: serde_json::Value, t0: Instant) {
        self.phases.push(json!({
            "phase": name,
            "evaluations": acc.evaluations,
            "distinct_nontrivial": acc.nontrivial_hashes.len(),
            "wall_s": t0.elapsed().as_secs_f64(),
            "detail": extra,
        }));
        for e in &acc.internal_errors {
            self.inconclusive.push(format!("{name}: {e}"));
        }
        self.acc.merge(acc);
    }

    /// Random generated-input phase.
    pub fn random<C, S>(
        &mut self,
        name: &str,
        engine: &str,
        make_strategy: &(dyn Fn() -> S + Sync),
        run: &(dyn Fn(&C) -> Result<CaseReport, Stop> + Sync),
        cases: u64,
    ) where
        C: Serialize + Debug + Clone + Send + 'static,
        S: Strategy<Value = C>,
    {
        if self.failed() {
            return;
        }
        let t0 = Instant::now();
        let threads = if cases < 2000 { 1 } else { self.threads };
        let res = campaign(make_strategy, run, cases, threads, self.seed ^ fnv(name.as_bytes()));
        if let Some(f) = res.failure {
            let p = self.write_replay(engine, &f.case, &f.message, &format!("phase {name}, seed {}, shrunk by proptest", self.seed));
            self.violations.push((f.message, p));
        }
        self.absorb(name, res.acc, json!({"kind": "random", "threads": threads, "requested_cases": cases}), t0);
    }

    /// Enumerated phase; `complete_space` names the finite space when the iterator covers it fully.
    pub fn enumerated<C>(
        &mut self,
        name: &str,
        engine: &str,
        cases: impl Iterator<Item = C> + Send,
        run: &(dyn Fn(&C) -> Result<CaseReport, Stop> + Sync),
        complete_space: Option<&str>,
    ) where
        C: Serialize + Debug + Clone + Send + 'static,
    {
        if self.failed() {
            return;
        }
        let t0 = Instant::now();
        let res = run_enumerated(cases, run, self.threads);
        let failed = res.failure.is_some();
        if let Some(f) = res.failure {
            let p = self.write_replay(engine, &f.case, &f.message, &format!("phase {name} (enumerated)"));
            self.violations.push((f.message, p));
        }
        if let (Some(s), false) = (complete_space, failed) {
            self.exhaustive_spaces.push(s.to_string());
        }
        self.absorb(name, res.acc, json!({"kind": "enumerated", "complete_space": complete_space}), t0);
    }

    /// Replay every JSON file in `replays/<subdir>`: each must pass.
    pub fn regress_dir<C>(&mut self, subdir: &str, engine: &str, run: &(dyn Fn(&C) -> Result<CaseReport, Stop> + Sync))
    where
        C: Serialize + DeserializeOwned + Debug + Clone + Send + 'static,
    {
        let dir = self.verif_dir.join("replays").join(subdir);
        let mut files: Vec<PathBuf> = match std::fs::read_dir(&dir) {
            Ok(rd) => rd.filter_map(|e| e.ok().map(|e| e.path())).filter(|p| p.extension().map_or(false, |e| e == "json")).collect(),
            Err(_) => return,
        };
        files.sort();
        let t0 = Instant::now();
        let mut acc = Acc::default();
        for f in files {
            let Some((prop, eng, case)) = load_replay::<C>(&f) else { continue };
            if prop != self.prop.name() || eng != engine {
                continue;
            }
            let r = guarded(&case, run);
            acc.record(&case, &r);
            if let Err(Stop::Violation(m)) = r {
                self.violations.push((m, f.clone()));
            }
        }
        if acc.evaluations > 0 {
            self.absorb(&format!("replay:{subdir}"), acc, json!({"kind": "replay"}), t0);
        }
    }

    /// Replay the known findings listed for this property in KNOWN_FINDINGS.txt. A reproduction
    /// that still fails with its signature prints a KNOWN-FINDING line; one that fails differently
    /// is a violation; one that passes prints nothing.
    pub fn known_findings<C>(&mut self, engine: &str, run: &(dyn Fn(&C) -> Result<CaseReport, Stop> + Sync))
    where
        C: Serialize + DeserializeOwned + Debug + Clone + Send + 'static,
    {
        let text = std::fs::read_to_string(self.verif_dir.join("KNOWN_FINDINGS.txt")).unwrap_or_default();
        for line in text.lines() {
            let Some(rest) = line.strip_prefix("known: ") else { continue };
            let kv = parse_kv(rest);
            if kv.get("property").map(String::as_str) != Some(self.prop.name().as_str()) {
                continue;
            }
            let (Some(replay), Some(sig), Some(what), Some(id)) = (kv.get("replay"), kv.get("signature"), kv.get("what"), kv.get("id")) else {
                self.inconclusive.push(format!("malformed known-finding line: {line}"));
                continue;
            };
            let path = self.verif_dir.join(replay);
            // a reproduction written for another engine of the same property is that engine's business
            let file_engine = std::fs::read_to_string(&path)
                .ok()
                .and_then(|t| serde_json::from_str::<serde_json::Value>(&t).ok())
                .and_then(|v| v.get("engine").and_then(|e| e.as_str().map(str::to_string)));
            if matches!(&file_engine, Some(e) if e != engine) {
                continue;
            }
            let Some((_p, e, case)) = load_replay::<C>(&path) else {
                self.inconclusive.push(format!("known-finding replay {replay} unreadable"));
                continue;
            };
            if e != engine {
                continue;
            }
            match guarded(&case, run) {
                Err(Stop::Violation(m)) => {
                    if m.contains(sig.as_str()) {
                        self.known_lines.push(format!("KNOWN-FINDING: property={} {} {}", self.prop.name(), id, what));
                    } else {
                        self.violations.push((format!("reproduction of {id} now fails differently: {m}"), path));
                    }
                }
                Err(Stop::Internal(m)) => self.inconclusive.push(m),
                _ => {}
            }
        }
    }

    /// Thorough tier: absorb the libFuzzer campaign the `check` script ran before this binary
    /// (stats from its log) and judge every crash artifact by decoding and re-running it.
    pub fn fuzz_phase<C>(
        &mut self,
        engine: &str,
        decode: &(dyn Fn(&[u8]) -> C),
        run: &(dyn Fn(&C) -> Result<CaseReport, Stop> + Sync),
        shrink: &(dyn Fn(&C) -> C),
    )
    where
        C: Serialize + Debug + Clone + Send + 'static,
    {
        let Ok(log) = std::env::var("VERIF_FUZZ_LOG") else { return };
        let t0 = Instant::now();
        let text = std::fs::read_to_string(&log).unwrap_or_default();
        let stat = |k: &str| text.lines().rev().find_map(|l| l.strip_prefix(k).map(|v| v.trim().to_string()));
        let execs: u64 = stat("stat::number_of_executed_units:").and_then(|v| v.parse().ok()).unwrap_or(0);
        let cov = text.lines().rev().find_map(|l| l.split_whitespace().collect::<Vec<_>>().windows(2).find(|w| w[0] == "cov:").map(|w| w[1].to_string()));
        let corp = text.lines().rev().find_map(|l| l.split_whitespace().collect::<Vec<_>>().windows(2).find(|w| w[0] == "corp:").map(|w| w[1].to_string()));
        let mut acc = Acc::default();
        let mut crashes = 0;
        if let Ok(dir) = std::env::var("VERIF_FUZZ_ARTIFACTS") {
            let mut files: Vec<PathBuf> = std::fs::read_dir(&dir).map(|rd| rd.filter_map(|e| e.ok().map(|e| e.path())).collect()).unwrap_or_default();
            files.sort();
            for f in files {
                let name = f.file_name().and_then(|n| n.to_str()).unwrap_or("").to_string();
                if !(name.starts_with("crash-") || name.starts_with("oom-") || name.starts_with("timeout-")) {
                    continue;
                }
                crashes += 1;
                let Ok(bytes) = std::fs::read(&f) else { continue };
                let case = decode(&bytes);
                let r = guarded(&case, run);
                acc.record(&case, &r);
                match r {
                    Err(Stop::Violation(m)) => {
                        let small = shrink(&case);
                        let m = match guarded(&small, run) {
                            Err(Stop::Violation(m2)) => m2,
                            _ => m,
                        };
                        let p = self.write_replay(engine, &small, &m, &format!("libFuzzer artifact {name}, decoded and shrunk by greedy deletion"));
                        self.violations.push((m, p));
                    }
                    Err(Stop::Internal(m)) => self.inconclusive.push(format!("fuzz artifact {name}: {m}")),
                    _ => {
                        if name.starts_with("crash-") {
                            self.inconclusive.push(format!("fuzz artifact {name} crashed the target but passes when replayed through the engine (sanitizer finding? see {log})"));
                        }
                    }
                }
            }
        }
        acc.evaluations += execs;
        self.absorb(
            "libfuzzer-campaign",
            acc,
            json!({"kind": "coverage-guided fuzzing (libFuzzer + ASan)", "executions": execs, "final_coverage_edges": cov, "corpus_units": corp, "artifacts": crashes, "log": log}),
            t0,
        );
    }

    /// Thorough tier of C20: absorb the Miri run the `check` script made before this binary.
    pub fn miri_phase(&mut self) {
        let Ok(log) = std::env::var("VERIF_MIRI_LOG") else { return };
        let t0 = Instant::now();
        let text = std::fs::read_to_string(&log).unwrap_or_default();
        let mut acc = Acc::default();
        let mut status = "no result (timeout or build failure): phase skipped".to_string();
        if let Some(l) = text.lines().find(|l| l.starts_with("MIRI-OK cases=")) {
            acc.evaluations = l["MIRI-OK cases=".len()..].trim().parse().unwrap_or(0);
            status = "no undefined behaviour, no semantic violation".into();
        } else if let Some(pos) = text.find("VIOLATION-UNDER-MIRI") {
            let m = text[pos..].lines().next().unwrap_or("").to_string();
            let keep = self.verif_dir.join("replays").join("found").join(format!("{}-miri-{:016x}.log", self.prop.name(), fnv(text.as_bytes())));
            let _ = std::fs::create_dir_all(keep.parent().unwrap());
            let _ = std::fs::write(&keep, &text);
            self.violations.push((m, keep));
            status = "semantic violation under Miri".into();
        } else if text.contains("Undefined Behavior") || text.contains("memory leaked") {
            let in_lib = text.contains("/repo/") && !text.lines().filter(|l| l.contains("-->")).take(1).any(|l| l.contains("/harness/src/"));
            let keep = self.verif_dir.join("replays").join("found").join(format!("{}-miri-{:016x}.log", self.prop.name(), fnv(text.as_bytes())));
            let _ = std::fs::create_dir_all(keep.parent().unwrap());
            let _ = std::fs::write(&keep, &text);
            let first = text.lines().find(|l| l.contains("Undefined Behavior") || l.contains("memory leaked")).unwrap_or("").trim().to_string();
            if in_lib {
                self.violations.push((format!("Miri: {first}"), keep));
                status = "undefined behaviour reported in library code".into();
            } else {
                self.inconclusive.push(format!("Miri reported a problem whose first frame is harness code: {first} (log {})", keep.display()));
                status = "problem reported in harness code".into();
            }
        }
        self.absorb("miri", acc, json!({"kind": "generated histories under Miri (Tree Borrows)", "status": status, "log": log}), t0);
    }

    /// Write the evidence file and print the verdict lines. Returns the process exit code.
    pub fn finish(self) -> i32 {
        let tier = match self.tier {
            Tier::Quick => "quick",
            Tier::Thorough => "thorough",
        };
        let mut coverage = serde_json::Map::new();
        coverage.insert("evaluations".into(), json!(self.acc.evaluations));
        coverage.insert("distinct_nontrivial".into(), json!(self.acc.nontrivial_hashes.len()));
        coverage.insert("rule".into(), json!(self.rule));
        coverage.insert("samples".into(), json!(self.acc.samples));
        coverage.insert("classes".into(), json!(self.acc.classes));
        coverage.insert("oracle_comparisons".into(), json!(self.acc.oracle_checks));
        coverage.insert("thread_executions_judged".into(), json!(self.acc.extra_executions));
        coverage.insert("excluded_known".into(), json!(self.acc.excluded_known));
        coverage.insert("known_finding_hits".into(), json!(self.acc.known_hits));
        coverage.insert("cases_abandoned_other_property".into(), json!(self.acc.tainted));
        coverage.insert(
            "abandoned_samples".into(),
            json!(self.acc.tainted_samples.iter().map(|(m, c)| json!({"reason": m, "case": c})).collect::<Vec<_>>()),
        );
        coverage.insert("phases".into(), json!(self.phases));
        coverage.insert("exhaustive".into(), json!(false));
        coverage.insert("exhaustive_subspaces".into(), json!(self.exhaustive_spaces));
        for (k, v) in self.extra {
            coverage.insert(k, v);
        }
        let ev = json!({
            "property_id": self.prop.name(),
            "tier": tier,
            "seed": self.seed,
            "level": "exploration",
            "coverage": coverage,
            "assumptions": self.assumptions,
            "wall_s": self.start.elapsed().as_secs_f64(),
            "violations": self.violations.len(),
        });
        let evdir = self.verif_dir.join("evidence");
        let _ = std::fs::create_dir_all(&evdir);
        let evpath = evdir.join(format!("{}.json", self.prop.name()));
        if let Err(e) = std::fs::write(&evpath, serde_json::to_string_pretty(&ev).unwrap()) {
            eprintln!("cannot write evidence {}: {e}", evpath.display());
        }
        for l in &self.known_lines {
            println!("{l}");
        }
        if !self.violations.is_empty() {
            for (m, p) in &self.violations {
                println!("VIOLATION property={} replay={}", self.prop.name(), p.display());
                println!("  {m}");
            }
            return 1;
        }
        if !self.inconclusive.is_empty() {
            for m in &self.inconclusive {
                eprintln!("INCONCLUSIVE: {m}");
            }
            return 2;
        }
        println!(
            "OK property={} tier={} evaluations={} distinct_nontrivial={} wall_s={:.1}",
            self.prop.name(),
            tier,
            self.acc.evaluations,
            self.acc.nontrivial_hashes.len(),
            self.start.elapsed().as_secs_f64()
        );
        0
    }
}

pub fn load_replay<C: DeserializeOwned>(path: &Path) -> Option<(String, String, C)> {
    let text = std::fs::read_to_string(path).ok()?;
    let v: serde_json::Value = serde_json::from_str(&text).ok()?;
    let prop = v.get("property")?.as_str()?.to_string();
    let engine = v.get("engine")?.as_str()?.to_string();
    let case: C = serde_json::from_value(v.get("case")?.clone()).ok()?;
    Some((prop, engine, case))
}

/// Parse `key=value key="quoted value" ...`.
pub fn parse_kv(s: &str) -> std::collections::HashMap<String, String> {
    let mut out = std::collections::HashMap::new();
    let b: Vec<char> = s.chars().collect();
    let mut i = 0;
    while i < b.len() {
        while i < b.len() && b[i].is_whitespace() {
            i += 1;
        }
        let ks = i;
        while i < b.len() && b[i] != '=' && !b[i].is_whitespace() {
            i += 1;
        }
        if i >= b.len() || b[i] != '=' {
            break;
        }
        let key: String = b[ks..i].iter().collect();
        i += 1;
        let val: String;
        if i < b.len() && b[i] == '"' {
            i += 1;
            let vs = i;
            while i < b.len() && b[i] != '"' {
                i += 1;
            }
            val = b[vs..i].iter().collect();
            i += 1;
        } else {
            let vs = i;
            while i < b.len() && !b[i].is_whitespace() {
                i += 1;
            }
            val = b[vs..i].iter().collect();
        }
        out.insert(key, val);
    }
    out
}
