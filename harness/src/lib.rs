pub mod campaign;
pub mod checks;
pub mod common;
pub mod ctx;
pub mod engine_pure;
pub mod val;
