//! Bounded-exhaustive enumeration of engine A cases: every sequence of at most `max_len`
//! operations from a finite alphabet, for every listed subscriber configuration, initial vector
//! and capacity.

use crate::vec_types::*;

/// index fractions that hit every position 0..n for n <= 4
pub const POS: [Ix; 4] = [1, 16385, 32769, 49153];
/// limit fractions: 0, about a third, about two thirds, and beyond the length
pub const LIMS: [Ix; 5] = [0, 16000, 30000, 45000, 65535];

#[derive(Clone)]
pub struct EnumSpace {
    pub initials: Vec<Vec<u8>>,
    pub capacities: Vec<usize>,
    pub subs: Vec<Vec<SubSpec>>,
    pub alphabet: Vec<Op>,
    pub max_len: usize,
    pub final_drop: Vec<bool>,
    pub probe: bool,
}

pub fn vectors(max_len: usize, alphabet: &[u8]) -> Vec<Vec<u8>> {
    let mut out = vec![vec![]];
    let mut cur = vec![vec![]];
    for _ in 0..max_len {
        let mut next = vec![];
        for s in &cur {
            for a in alphabet {
                let mut t: Vec<u8> = s.clone();
                t.push(*a);
                next.push(t);
            }
        }
        out.extend(next.iter().cloned());
        cur = next;
    }
    out
}

impl EnumSpace {
    pub fn size(&self) -> u64 {
        let a = self.alphabet.len() as u64;
        let mut seqs = 0u64;
        let mut p = 1u64;
        for _ in 0..=self.max_len {
            seqs += p;
            p *= a;
        }
        seqs * self.initials.len() as u64 * self.capacities.len() as u64 * self.subs.len() as u64 * self.final_drop.len() as u64
    }

    pub fn iter(self) -> impl Iterator<Item = VecCase> + Send {
        let sp = self;
        let a = sp.alphabet.len();
        // enumerate op sequences as mixed-radix counters, shortest first
        let seqs = (0..=sp.max_len).flat_map(move |len| {
            let total = (a as u64).pow(len as u32);
            (0..total).map(move |mut n| {
                let mut idx = Vec::with_capacity(len);
                for _ in 0..len {
                    idx.push((n % a as u64) as usize);
                    n /= a as u64;
                }
                idx
            })
        });
        let sp2 = sp.clone();
        seqs.flat_map(move |idx| {
            let sp = sp2.clone();
            let ops: Vec<Op> = idx.iter().map(|i| sp.alphabet[*i].clone()).collect();
            let mut out = Vec::new();
            for init in &sp.initials {
                for cap in &sp.capacities {
                    for subs in &sp.subs {
                        for fd in &sp.final_drop {
                            out.push(VecCase {
                                capacity: *cap,
                                initial: init.clone(),
                                probe: sp.probe,
                                subs: subs.clone(),
                                ops: ops.clone(),
                                final_drop: *fd,
                                strict: false,
                        shared_waker: false,
                            });
                        }
                    }
                }
            }
            out.into_iter()
        })
    }
}

pub fn basic_vops() -> Vec<Op> {
    let mut v = vec![
        Op::V(VOp::PushFront(0)),
        Op::V(VOp::PushBack(1)),
        Op::V(VOp::PopFront),
        Op::V(VOp::PopBack),
        Op::V(VOp::Clear),
        Op::V(VOp::Append(vec![1, 0])),
    ];
    for p in POS {
        v.push(Op::V(VOp::Insert(p, 0)));
    }
    for p in &POS[..3] {
        v.push(Op::V(VOp::Set(*p, 1)));
        v.push(Op::V(VOp::Remove(*p)));
    }
    for p in POS {
        v.push(Op::V(VOp::Truncate(p)));
    }
    v
}

pub fn spec(pipeline: Vec<Stage>, batched: bool, policy: Policy, fifo: bool) -> SubSpec {
    SubSpec { batched, pipeline, policy, fifo, twin: false, convert: 0 }
}

/// C09: every Head/Tail/Skip variant with every small limit.
pub fn hts_stage_variants(max_limit: u8) -> Vec<Stage> {
    let mut v = vec![Stage::DynHead, Stage::DynTail, Stage::DynSkip];
    for l in 0..=max_limit {
        v.extend([Stage::Head(l), Stage::Tail(l), Stage::Skip(l), Stage::DynHeadInit(l), Stage::DynTailInit(l), Stage::DynSkipInit(l)]);
    }
    v
}

pub fn c09_space(max_len: usize) -> EnumSpace {
    let mut alphabet = basic_vops();
    for l in LIMS {
        alphabet.push(Op::SetLimit { sub: 0, stage: 0, value: l });
    }
    alphabet.push(Op::Poll { sub: 0, mode: PollMode::Once });
    alphabet.push(Op::Poll { sub: 0, mode: PollMode::UntilPending });
    alphabet.push(Op::Txn { body: vec![TOp::V(VOp::PushBack(0)), TOp::V(VOp::PushFront(1))], end: TxnEnd::Commit });
    let mut subs = vec![];
    for st in hts_stage_variants(3) {
        for batched in [false, true] {
            subs.push(vec![spec(vec![st], batched, Policy::Lazy, batched)]);
        }
    }
    EnumSpace { initials: vectors(3, &[0, 1]), capacities: vec![2], subs, alphabet, max_len, final_drop: vec![false], probe: true }
}

pub fn c10_space(max_len: usize) -> EnumSpace {
    let mut alphabet = basic_vops();
    alphabet.push(Op::Poll { sub: 0, mode: PollMode::Once });
    alphabet.push(Op::Txn { body: vec![TOp::V(VOp::PushBack(0)), TOp::V(VOp::Set(POS[0], 1))], end: TxnEnd::Commit });
    let mut subs = vec![];
    // over a two-value alphabet the four masks give every pass/fail assignment
    for mask in [0b00u8, 0b01, 0b10, 0b11] {
        for batched in [false, true] {
            subs.push(vec![spec(vec![Stage::Filter(mask)], batched, Policy::Lazy, false)]);
            subs.push(vec![spec(vec![Stage::FilterMap(mask)], batched, Policy::Lazy, false)]);
        }
    }
    EnumSpace { initials: vectors(4, &[0, 1]), capacities: vec![1, 16], subs, alphabet, max_len, final_drop: vec![false], probe: true }
}

pub fn c11_space(max_len: usize) -> EnumSpace {
    let mut alphabet: Vec<Op> = vec![
        Op::V(VOp::PushFront(0)),
        Op::V(VOp::PushFront(2)),
        Op::V(VOp::PushBack(1)),
        Op::V(VOp::PushBack(3)),
        Op::V(VOp::PopFront),
        Op::V(VOp::PopBack),
        Op::V(VOp::Clear),
        Op::V(VOp::Append(vec![3, 0, 1])),
    ];
    for p in POS {
        alphabet.push(Op::V(VOp::Insert(p, 1)));
        alphabet.push(Op::V(VOp::Insert(p, 4)));
    }
    for p in &POS[..3] {
        alphabet.push(Op::V(VOp::Set(*p, 0)));
        alphabet.push(Op::V(VOp::Set(*p, 5)));
        alphabet.push(Op::V(VOp::Remove(*p)));
    }
    alphabet.push(Op::Poll { sub: 0, mode: PollMode::Once });
    let mut subs = vec![];
    for st in [Stage::Sort, Stage::SortBy, Stage::SortByKey] {
        for batched in [false, true] {
            subs.push(vec![spec(vec![st], batched, Policy::Lazy, false)]);
        }
    }
    EnumSpace { initials: vectors(3, &[0, 1, 4]), capacities: vec![2], subs, alphabet, max_len, final_drop: vec![false], probe: true }
}

/// C05/C06: raw subscribers, all poll subsets via explicit Poll ops, small capacities.
pub fn raw_space(max_len: usize, capacities: Vec<usize>, bounded: bool) -> EnumSpace {
    let mut alphabet = basic_vops();
    alphabet.push(Op::Poll { sub: 0, mode: PollMode::Once });
    alphabet.push(Op::Poll { sub: 128, mode: PollMode::UntilPending });
    alphabet.push(Op::Txn { body: vec![TOp::V(VOp::PushBack(0)), TOp::V(VOp::PushFront(1)), TOp::V(VOp::PopBack)], end: TxnEnd::Commit });
    alphabet.push(Op::Subscribe(spec(vec![], false, if bounded { Policy::Bounded } else { Policy::Lazy }, false)));
    let pol = if bounded { Policy::Bounded } else { Policy::Lazy };
    let subs = vec![
        vec![spec(vec![], false, pol, false), spec(vec![], true, pol, false)],
        vec![spec(vec![], false, Policy::Eager, false), spec(vec![], true, pol, false)],
    ];
    EnumSpace { initials: vectors(2, &[0, 1]), capacities, subs, alphabet, max_len, final_drop: vec![false, true], probe: true }
}

/// C07: every transaction body of at most `max_body` operations, each ended by commit and by
/// drop, and cut by a rollback at every position.
pub fn c07_cases(max_body: usize) -> impl Iterator<Item = VecCase> + Send {
    let tops: Vec<TOp> = vec![
        TOp::V(VOp::PushFront(0)),
        TOp::V(VOp::PushBack(1)),
        TOp::V(VOp::PopFront),
        TOp::V(VOp::PopBack),
        TOp::V(VOp::Clear),
        TOp::V(VOp::Append(vec![1, 0])),
        TOp::V(VOp::Insert(POS[1], 0)),
        TOp::V(VOp::Set(POS[0], 1)),
        TOp::V(VOp::Remove(POS[1])),
        TOp::V(VOp::Truncate(POS[1])),
        TOp::V(VOp::EntrySet(POS[0], 0)),
        TOp::V(VOp::EntryRemove(POS[0])),
        TOp::V(VOp::ForEach(vec![Dec::Remove, Dec::Set(1)])),
        TOp::Rollback,
    ];
    let a = tops.len();
    let initials = vectors(2, &[0, 1]);
    let sub_sets: Vec<Vec<SubSpec>> = vec![
        vec![],
        vec![spec(vec![], false, Policy::Eager, false), spec(vec![], true, Policy::Eager, false)],
        vec![spec(vec![], true, Policy::Lazy, false)],
    ];
    (0..=max_body).flat_map(move |len| {
        let tops = tops.clone();
        let initials = initials.clone();
        let sub_sets = sub_sets.clone();
        let total = (a as u64).pow(len as u32);
        (0..total).flat_map(move |mut n| {
            let mut body = Vec::with_capacity(len);
            for _ in 0..len {
                body.push(tops[(n % a as u64) as usize].clone());
                n /= a as u64;
            }
            let mut out = vec![];
            for init in &initials {
                for subs in &sub_sets {
                    for end in [TxnEnd::Commit, TxnEnd::Drop] {
                        out.push(VecCase {
                            capacity: 2,
                            initial: init.clone(),
                            probe: !subs.is_empty(),
                            subs: subs.clone(),
                            ops: vec![Op::Txn { body: body.clone(), end }, Op::V(VOp::PushBack(1))],
                            final_drop: false,
                            strict: false,
                        shared_waker: false,
                        });
                    }
                }
            }
            out.into_iter()
        })
    })
}

/// C17: every decision list of length <= vector length for vectors <= `max_vec`, for_each and
/// entries, directly and inside a transaction; plus every out-of-range call.
pub fn c17_cases(max_vec: usize) -> impl Iterator<Item = VecCase> + Send {
    let decs = [Dec::Keep, Dec::Set(1), Dec::Remove, Dec::SetRemove(0), Dec::Stop];
    let mut out = vec![];
    for n in 0..=max_vec {
        let init: Vec<u8> = (0..n as u8).map(|i| i % 3).collect();
        let total = (decs.len() as u64).pow(n as u32);
        for mut k in 0..total {
            let mut ds = vec![];
            for _ in 0..n {
                ds.push(decs[(k % decs.len() as u64) as usize]);
                k /= decs.len() as u64;
            }
            for entries in [false, true] {
                let v = if entries { VOp::Entries(ds.clone()) } else { VOp::ForEach(ds.clone()) };
                for in_txn in [false, true] {
                    let ops = if in_txn { vec![Op::Txn { body: vec![TOp::V(v.clone())], end: TxnEnd::Commit }] } else { vec![Op::V(v.clone())] };
                    out.push(VecCase {
                        capacity: 16,
                        initial: init.clone(),
                        probe: true,
                        subs: vec![spec(vec![], false, Policy::Eager, false)],
                        ops,
                        final_drop: false,
                        strict: false,
                        shared_waker: false,
                    });
                }
            }
        }
        for extra in 0..3u8 {
            for v in [VOp::OobInsert(extra, 1), VOp::OobSet(extra, 1), VOp::OobRemove(extra), VOp::OobEntry(extra)] {
                for in_txn in [false, true] {
                    let ops = if in_txn {
                        vec![Op::Txn { body: vec![TOp::V(VOp::PushBack(2)), TOp::V(v.clone())], end: TxnEnd::Commit }]
                    } else {
                        vec![Op::V(v.clone()), Op::V(VOp::PushBack(2))]
                    };
                    out.push(VecCase {
                        capacity: 16,
                        initial: init.clone(),
                        probe: true,
                        subs: vec![spec(vec![], false, Policy::Eager, false)],
                        ops,
                        final_drop: false,
                        strict: false,
                        shared_waker: false,
                    });
                }
            }
        }
    }
    out.into_iter()
}
