//! Engine D: `VectorDiff::map` / `VectorDiff::apply` against a plain-`Vec` reference (C18).

use eyeball_im::VectorDiff;
use imbl::Vector;
use proptest::prelude::*;
use serde::{Deserialize, Serialize};

use crate::{
    campaign::CaseReport,
    common::{catch, Stop, R},
};

#[derive(Clone, Debug, Serialize, Deserialize, PartialEq)]
pub enum PDiff {
    Append(Vec<u8>),
    Clear,
    PushFront(u8),
    PushBack(u8),
    PopFront,
    PopBack,
    Insert(usize, u8),
    Set(usize, u8),
    Remove(usize),
    Truncate(usize),
    Reset(Vec<u8>),
}

#[derive(Clone, Copy, Debug, Serialize, Deserialize, PartialEq)]
pub enum MapFn {
    Identity,
    Plus1,
    Mod3,
    Const7,
}

impl MapFn {
    fn f(self, x: u8) -> u8 {
        match self {
            MapFn::Identity => x,
            MapFn::Plus1 => x.wrapping_add(1),
            MapFn::Mod3 => x % 3,
            MapFn::Const7 => 7,
        }
    }
}

#[derive(Clone, Debug, Serialize, Deserialize)]
pub struct PureCase {
    pub vec: Vec<u8>,
    pub diff: PDiff,
    pub f: MapFn,
}

fn to_lib(d: &PDiff) -> VectorDiff<u8> {
    match d {
        PDiff::Append(v) => VectorDiff::Append { values: v.iter().copied().collect() },
        PDiff::Clear => VectorDiff::Clear,
        PDiff::PushFront(x) => VectorDiff::PushFront { value: *x },
        PDiff::PushBack(x) => VectorDiff::PushBack { value: *x },
        PDiff::PopFront => VectorDiff::PopFront,
        PDiff::PopBack => VectorDiff::PopBack,
        PDiff::Insert(i, x) => VectorDiff::Insert { index: *i, value: *x },
        PDiff::Set(i, x) => VectorDiff::Set { index: *i, value: *x },
        PDiff::Remove(i) => VectorDiff::Remove { index: *i },
        PDiff::Truncate(n) => VectorDiff::Truncate { length: *n },
        PDiff::Reset(v) => VectorDiff::Reset { values: v.iter().copied().collect() },
    }
}

/// The documented meaning of each diff on a plain Vec. `Err` = must panic.
fn reference_apply(d: &PDiff, v: &mut Vec<u8>) -> Result<(), ()> {
    match d {
        PDiff::Append(x) => v.extend_from_slice(x),
        PDiff::Clear => v.clear(),
        PDiff::PushFront(x) => v.insert(0, *x),
        PDiff::PushBack(x) => v.push(*x),
        PDiff::PopFront => {
            if !v.is_empty() {
                v.remove(0);
            }
        }
        PDiff::PopBack => {
            v.pop();
        }
        PDiff::Insert(i, x) => {
            if *i > v.len() {
                return Err(());
            }
            v.insert(*i, *x);
        }
        PDiff::Set(i, x) => {
            if *i >= v.len() {
                return Err(());
            }
            v[*i] = *x;
        }
        PDiff::Remove(i) => {
            if *i >= v.len() {
                return Err(());
            }
            v.remove(*i);
        }
        PDiff::Truncate(n) => {
            if *n < v.len() {
                v.truncate(*n);
            }
        }
        PDiff::Reset(x) => *v = x.clone(),
    }
    Ok(())
}

fn map_pdiff(d: &PDiff, f: impl Fn(u8) -> u8) -> PDiff {
    match d {
        PDiff::Append(v) => PDiff::Append(v.iter().map(|x| f(*x)).collect()),
        PDiff::PushFront(x) => PDiff::PushFront(f(*x)),
        PDiff::PushBack(x) => PDiff::PushBack(f(*x)),
        PDiff::Insert(i, x) => PDiff::Insert(*i, f(*x)),
        PDiff::Set(i, x) => PDiff::Set(*i, f(*x)),
        PDiff::Reset(v) => PDiff::Reset(v.iter().map(|x| f(*x)).collect()),
        other => other.clone(),
    }
}

fn vio<T>(m: String) -> R<T> {
    Err(Stop::Violation(m))
}

pub fn run(case: &PureCase) -> R<CaseReport> {
    let mut rep = CaseReport::default();
    let PureCase { vec, diff, f } = case;
    let lib_vec: Vector<u8> = vec.iter().copied().collect();
    let lib_diff = to_lib(diff);

    // reference
    let mut ref_vec = vec.clone();
    let must_panic = reference_apply(diff, &mut ref_vec).is_err();

    // (1) apply == reference, panics exactly when the reference says so
    let applied = {
        let d = lib_diff.clone();
        let mut v = lib_vec.clone();
        catch(move || {
            d.apply(&mut v);
            v
        })
    };
    rep.checks += 1;
    match (&applied, must_panic) {
        (Err(_), true) => {}
        (Err(c), false) => {
            return vio(format!("apply panicked for an applicable diff: {} ({})", c.msg, c.loc));
        }
        (Ok(v), true) => {
            return vio(format!("apply did not panic for an out-of-range diff; result {:?}", v));
        }
        (Ok(v), false) => {
            let got: Vec<u8> = v.iter().copied().collect();
            if got != ref_vec {
                return vio(format!("apply result {:?} != reference {:?}", got, ref_vec));
            }
        }
    }

    // (2) map(identity) is an equal diff
    rep.checks += 1;
    let id_mapped = lib_diff.clone().map(|x| x);
    if id_mapped != lib_diff {
        return vio(format!("map(identity) changed the diff: {:?} -> {:?}", lib_diff, id_mapped));
    }

    // (3) map commutes with apply (only for applicable diffs); the mapped diff equals the
    // reference mapping of the diff, variant and indices included
    let mapped = Some(lib_diff.clone().map(|x| f.f(x)));
    if let Some(mapped) = mapped {
        rep.checks += 1;
        let expect = to_lib(&map_pdiff(diff, |x| f.f(x)));
        if mapped != expect {
            return vio(format!("map gave {:?}, expected {:?}", mapped, expect));
        }
        if !must_panic {
            rep.checks += 1;
            let mut lhs: Vector<u8> = lib_vec.iter().map(|x| f.f(*x)).collect();
            let r = catch(move || {
                mapped.apply(&mut lhs);
                lhs
            });
            let lhs = match r {
                Ok(v) => v,
                Err(c) => return vio(format!("mapped diff not applicable to mapped vector: {}", c.msg)),
            };
            let rhs: Vec<u8> = ref_vec.iter().map(|x| f.f(*x)).collect();
            let lhs: Vec<u8> = lhs.iter().copied().collect();
            if lhs != rhs {
                return vio(format!("map/apply do not commute: {:?} vs {:?}", lhs, rhs));
            }
        }
    }

    // non-trivial: the diff changes the length or an interior element, or must panic
    let changes = must_panic || ref_vec != *vec;
    rep.nontrivial = changes;
    rep.classes.push(match diff {
        PDiff::Append(_) => "append",
        PDiff::Clear => "clear",
        PDiff::PushFront(_) => "push_front",
        PDiff::PushBack(_) => "push_back",
        PDiff::PopFront => "pop_front",
        PDiff::PopBack => "pop_back",
        PDiff::Insert(..) => "insert",
        PDiff::Set(..) => "set",
        PDiff::Remove(_) => "remove",
        PDiff::Truncate(_) => "truncate",
        PDiff::Reset(_) => "reset",
    });
    if must_panic {
        rep.classes.push("out_of_range");
    }
    if vec.len() > 64 {
        rep.classes.push("vec_len>64 (multi-chunk imbl vector)");
    }
    Ok(rep)
}

const FNS: [MapFn; 4] = [MapFn::Identity, MapFn::Plus1, MapFn::Mod3, MapFn::Const7];

/// All (vector ≤ max_len over {0,1,2}) × (all diffs with indices 0..=len+1, payloads ≤ 2 items) × f.
pub fn enumerate(max_len: usize) -> impl Iterator<Item = PureCase> + Send {
    fn seqs(max: usize) -> Vec<Vec<u8>> {
        let mut out = vec![vec![]];
        let mut cur = vec![vec![]];
        for _ in 0..max {
            let mut next = Vec::new();
            for s in &cur {
                for a in 0..3u8 {
                    let mut t: Vec<u8> = s.clone();
                    t.push(a);
                    next.push(t);
                }
            }
            out.extend(next.iter().cloned());
            cur = next;
        }
        out
    }
    let vecs = seqs(max_len);
    let payloads = seqs(2);
    vecs.into_iter().flat_map(move |v| {
        let len = v.len();
        let mut diffs = vec![PDiff::Clear, PDiff::PopFront, PDiff::PopBack];
        for p in &payloads {
            diffs.push(PDiff::Append(p.clone()));
            diffs.push(PDiff::Reset(p.clone()));
        }
        for a in 0..3u8 {
            diffs.push(PDiff::PushFront(a));
            diffs.push(PDiff::PushBack(a));
            for i in 0..=len + 1 {
                diffs.push(PDiff::Insert(i, a));
                diffs.push(PDiff::Set(i, a));
            }
        }
        for i in 0..=len + 1 {
            diffs.push(PDiff::Remove(i));
            diffs.push(PDiff::Truncate(i));
        }
        diffs.into_iter().flat_map(move |d| {
            let v = v.clone();
            FNS.iter().map(move |f| PureCase { vec: v.clone(), diff: d.clone(), f: *f })
        })
    })
}

pub fn strategy(max_len: usize) -> impl Strategy<Value = PureCase> {
    let vecs = prop_oneof![
        3 => proptest::collection::vec(0u8..8, 0..=8),
        2 => proptest::collection::vec(any::<u8>(), 0..=max_len),
        1 => proptest::collection::vec(any::<u8>(), 60..=max_len.max(61)),
    ];
    // payload lengths around imbl's chunk size and its multiples as well as small ones
    let payload = prop_oneof![
        6 => proptest::collection::vec(any::<u8>(), 0..=70),
        1 => proptest::collection::vec(any::<u8>(), 120..=136),
        1 => proptest::collection::vec(any::<u8>(), 190..=194),
        1 => proptest::collection::vec(any::<u8>(), 254..=322),
        1 => (1usize..=6).prop_flat_map(|k| proptest::collection::vec(any::<u8>(), k * 64..=k * 64)),
    ];
    (vecs, any::<u16>(), any::<u16>(), any::<u8>(), payload, 0usize..14, 0usize..4)
        .prop_map(|(vec, ix, ix2, x, payload, kind, f)| {
            let len = vec.len();
            // in-range and beyond-the-end indices both reachable: 0..=len+2
            let idx = (ix as usize * (len + 3)) >> 16;
            let idx2 = (ix2 as usize * (len + 3)) >> 16;
            let diff = match kind {
                0 => PDiff::Append(payload),
                1 => PDiff::Clear,
                2 => PDiff::PushFront(x),
                3 => PDiff::PushBack(x),
                4 => PDiff::PopFront,
                5 => PDiff::PopBack,
                6 | 11 => PDiff::Insert(idx, x),
                7 | 12 => PDiff::Set(idx, x),
                8 | 13 => PDiff::Remove(idx),
                9 => PDiff::Truncate(idx2),
                _ => PDiff::Reset(payload),
            };
            PureCase { vec, diff, f: FNS[f] }
        })
}
