//! Per-property check plans.

use crate::{
    common::Prop,
    ctx::Ctx,
    engine_pure, engine_vec,
    vec_gen::{self, GenCfg, Pipes, StageKind, ALL_KINDS, FILTERS, HTS, SORTS, STATIC_HT},
    vec_types::{Policy, VecCase},
};

pub fn run_check(ctx: &mut Ctx) {
    match ctx.prop {
        Prop::C18 => c18(ctx),
        Prop::C05 | Prop::C06 | Prop::C07 | Prop::C08 | Prop::C09 | Prop::C10 | Prop::C11 | Prop::C12 | Prop::C13 | Prop::C14
        | Prop::C15 | Prop::C17 | Prop::C20 => vec_check(ctx),
        p => ctx.inconclusive.push(format!("no check implemented for {}", p.name())),
    }
}

/// Replay one file for a property. Returns Ok(()) if the case passes.
pub fn replay_one(ctx: &mut Ctx, path: &std::path::Path) {
    use crate::campaign::guarded;
    use crate::common::Stop;
    use crate::ctx::load_replay;
    macro_rules! go {
        ($ty:ty, $run:expr) => {{
            match load_replay::<$ty>(path) {
                Some((_p, _e, case)) => {
                    let r = guarded(&case, &$run);
                    ctx.acc.record(&case, &r);
                    match r {
                        Err(Stop::Violation(m)) => ctx.violations.push((m, path.to_path_buf())),
                        Err(Stop::Internal(m)) => ctx.inconclusive.push(m),
                        Err(Stop::Known(k)) => println!("case stops at known finding {k}"),
                        Err(Stop::Tainted(m)) => println!("case abandoned (assertion of another property failed): {m}"),
                        Ok(_) => {}
                    }
                }
                None => ctx.inconclusive.push(format!("cannot parse replay {}", path.display())),
            }
        }};
    }
    match ctx.prop {
        Prop::C18 => go!(engine_pure::PureCase, engine_pure::run),
        Prop::C05 | Prop::C06 | Prop::C07 | Prop::C08 | Prop::C09 | Prop::C10 | Prop::C11 | Prop::C12 | Prop::C13 | Prop::C14
        | Prop::C15 | Prop::C17 | Prop::C20 => {
            let prop = ctx.prop;
            go!(VecCase, |c: &VecCase| engine_vec::run(c, prop))
        }
        p => ctx.inconclusive.push(format!("no replay implemented for {}", p.name())),
    }
}

fn c18(ctx: &mut Ctx) {
    ctx.rule = "cases = (vector, diff, element mapping f). Enumerated: every vector of length <= 4 over {0,1,2} x every diff kind with every index 0..=len+1 and payloads of <= 2 items x f in {identity,+1,%3,const}. Random: vectors up to 200 items (imbl multi-chunk), indices 0..=len+2. Non-trivial = the diff changes the vector or must panic (beyond-the-end insert/set/remove); distinct = distinct (vector,diff,f) triple".into();
    ctx.assumptions = vec![
        "the harness's own 40-line reference semantics of the eleven diff kinds on a plain Vec is the documented meaning".into(),
        "element mappings are pure functions u8 -> u8".into(),
    ];
    ctx.regress_dir("regress", "pure", &engine_pure::run);
    ctx.enumerated(
        "exhaustive-small",
        "pure",
        engine_pure::enumerate(4),
        &engine_pure::run,
        Some("vectors len<=4 over 3 values x all diffs (indices 0..=len+1, payload<=2) x 4 mappings"),
    );
    let n = ctx.pick(1_000_000, 4_000_000);
    ctx.random("random-large", "pure", &|| engine_pure::strategy(200), &engine_pure::run, n);
}

/// Generator configurations per property: (phase name, config, quick cases, thorough cases).
pub fn vec_phases(prop: Prop) -> Vec<(&'static str, GenCfg, u64, u64)> {
    let d = GenCfg::default();
    let single = |kinds: &[StageKind]| Pipes::Single(kinds.to_vec());
    match prop {
        Prop::C05 => vec![(
            "raw-subscribers-bounded-lag",
            GenCfg { pipes: Pipes::None, policies: vec![Policy::Eager, Policy::Bounded, Policy::Bounded], probe_pct: 90, w_subscribe: 2, final_drop_pct: 20, ..d.clone() },
            300_000,
            4_000_000,
        )],
        Prop::C06 => vec![(
            "raw-subscribers-free-lag",
            GenCfg {
                pipes: Pipes::None,
                capacities: vec![1, 1, 2, 2, 3, 5, 7, 16, 64],
                policies: vec![Policy::Eager, Policy::Lazy, Policy::Lazy, Policy::Lazy],
                probe_pct: 100,
                w_subscribe: 2,
                w_poll: 3,
                initial_subs: (1, 4),
                final_drop_pct: 20,
                ..d.clone()
            },
            300_000,
            4_000_000,
        )],
        Prop::C07 => vec![(
            "transactions",
            GenCfg {
                pipes: Pipes::None,
                w_vop: 3,
                w_txn: 8,
                probe_pct: 70,
                initial_subs: (0, 3),
                max_ops: 12,
                final_drop_pct: 20,
                ..d.clone()
            },
            300_000,
            3_000_000,
        )],
        Prop::C08 => vec![(
            "drop-vector",
            GenCfg {
                pipes: Pipes::None,
                capacities: vec![1, 2, 3, 4, 16],
                policies: vec![Policy::Eager, Policy::Lazy, Policy::Lazy, Policy::Bounded],
                initial_subs: (1, 3),
                final_drop_pct: 85,
                max_ops: 16,
                probe_pct: 90,
                ..d.clone()
            },
            300_000,
            3_000_000,
        )],
        Prop::C09 => vec![(
            "head-tail-skip-single-stage",
            GenCfg { pipes: single(&HTS), w_limit: 6, initial_subs: (1, 2), w_subscribe: 1, w_dropsub: 0, probe_pct: 95, ..d.clone() },
            1_000_000,
            20_000_000,
        )],
        Prop::C10 => vec![(
            "filter-single-stage",
            GenCfg { pipes: single(&FILTERS), capacities: vec![1, 2, 3, 16, 64], initial_subs: (1, 2), w_dropsub: 0, probe_pct: 95, ..d.clone() },
            400_000,
            6_000_000,
        )],
        Prop::C11 => vec![(
            "sort-single-stage",
            GenCfg { pipes: single(&SORTS), capacities: vec![1, 2, 3, 16, 64], initial_subs: (1, 2), w_dropsub: 0, probe_pct: 95, ..d.clone() },
            400_000,
            6_000_000,
        )],
        Prop::C12 => vec![(
            "chains",
            GenCfg { pipes: Pipes::Chain, w_limit: 6, initial_subs: (1, 2), w_dropsub: 0, probe_pct: 95, max_initial: 8, ..d.clone() },
            500_000,
            8_000_000,
        )],
        Prop::C13 => vec![
            (
                "batched-fixed-with-twin",
                GenCfg {
                    pipes: Pipes::Any,
                    batched_pct: 100,
                    twin: true,
                    w_txn: 8,
                    w_vop: 5,
                    initial_subs: (1, 2),
                    w_dropsub: 0,
                    capacities: vec![4, 16, 64],
                    probe_pct: 100,
                    ..d.clone()
                },
                250_000,
                3_000_000,
            ),
            (
                "batched-dynamic",
                GenCfg { pipes: Pipes::Any, batched_pct: 100, w_txn: 8, w_vop: 5, w_limit: 5, initial_subs: (1, 2), w_dropsub: 0, probe_pct: 100, ..d.clone() },
                200_000,
                3_000_000,
            ),
        ],
        Prop::C14 => vec![(
            "all-streams-poll-after-every-op",
            GenCfg {
                pipes: Pipes::Any,
                policies: vec![Policy::Eager, Policy::Eager, Policy::Lazy],
                w_limit: 6,
                w_poll: 6,
                initial_subs: (1, 3),
                probe_pct: 95,
                final_drop_pct: 60,
                ..d.clone()
            },
            500_000,
            6_000_000,
        )],
        Prop::C15 => vec![
            ("static-head-tail", GenCfg { pipes: single(&STATIC_HT), initial_subs: (1, 2), w_dropsub: 0, ..d.clone() }, 300_000, 4_000_000),
            ("static-head-tail-in-chains", GenCfg { pipes: Pipes::Chain, initial_subs: (1, 2), w_dropsub: 0, w_limit: 3, ..d.clone() }, 150_000, 2_000_000),
        ],
        Prop::C17 => vec![(
            "mutators-and-traversal",
            GenCfg { pipes: Pipes::None, oob: true, w_txn: 5, initial_subs: (0, 2), probe_pct: 70, max_ops: 16, w_poll: 1, ..d.clone() },
            400_000,
            4_000_000,
        )],
        Prop::C20 => vec![
            ("raw-and-transactions", GenCfg { pipes: Pipes::None, w_txn: 5, initial_subs: (0, 4), w_dropsub: 3, ..d.clone() }, 150_000, 1_500_000),
            ("adapters", GenCfg { pipes: Pipes::Any, w_limit: 4, initial_subs: (1, 3), w_dropsub: 3, ..d.clone() }, 150_000, 1_500_000),
        ],
        _ => vec![],
    }
}

fn vec_check(ctx: &mut Ctx) {
    let prop = ctx.prop;
    let run = move |c: &VecCase| engine_vec::run(c, prop);
    ctx.regress_dir("regress", "vec", &run);
    ctx.known_findings("vec", &run);
    for (name, cfg, q, t) in vec_phases(prop) {
        let n = ctx.pick(q, t);
        ctx.random(name, "vec", &|| vec_gen::case(&cfg), &run, n);
    }
    let _ = ALL_KINDS;
}
