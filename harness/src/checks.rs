//! Per-property check plans.

use crate::{
    common::Prop,
    ctx::Ctx,
    engine_obs::{self, Fl, ObsCase, ObsGen},
    engine_pure,
    engine_thr::{self, TOp, ThrCase, ThrProg},
    engine_vec,
    vec_gen::{self, GenCfg, Pipes, StageKind, ALL_KINDS, FILTERS, HTS, SORTS, STATIC_HT},
    vec_types::{Policy, VecCase},
};

/// How cases are generated and what makes one non-trivial / distinct, per property.
fn describe(ctx: &mut Ctx) {
    let vec_gen = "proptest-generated VecCase = (capacity, initial vector, optional probe subscriber, initial subscriber specs, <= 24 operations, final drop): operations are the eleven mutators, entry ops, for_each/entries traversals, transactions (with rollback, and subscriber drops/polls inside), mid-history subscriptions, limit changes, polls (once / k / until Pending), subscriber drops; indices are fractions resolved at run time; a third of the cases poll every stream with one shared waker; half of the subscriber handles are converted to streams only at their first poll. Interpreted against the real library and a plain-Vec model, taps at every adapter boundary. Distinct = distinct serialised case. ";
    let obs_gen = "proptest-generated ObsCase = (flavour, unique/shared start, initial value, <= 30 calls over every public entry point incl. guards held across calls (sync) and handle operations); value = (key, payload) with Eq on both and Hash on key only; every return value and poll result compared with a version-free model after every call; a third of the cases use one shared waker. Distinct = distinct serialised case. ";
    let thr = "Thread engine: fixed 2-3 thread programs whose complete release-order space at the __verif_hooks pause points is enumerated by stateless DFS (each schedule = one evaluation), proptest-generated directed programs (<= 3 threads x <= 3 ops, random schedule prefix), and proptest-generated free-running programs (2-4 threads x <= 6 ops, each executed 60 times on one set of worker threads; counted in thread_executions_judged). ";
    let (rule, assumptions): (String, Vec<&str>) = match ctx.prop {
        Prop::C01 => (format!("{obs_gen}Plus every history of <= 4 (quick) / 5 (thorough) calls from a 14-call alphabet (enumerated). Non-trivial = the history contains a conditional setter that did not store, a poll that became ready after >= 2 intervening updates, and a get/next_now followed by a poll of the same subscriber. Also (since seeding round 9): the async-lock guard engine (guards held across other calls; its value and readiness rules are tagged C01; non-trivial there = a task queued behind a write guard completed after the release) and the free-running thread programs of engine C (60 executions each; rules tagged C01: a subscriber created by subscribe() after the last write completed is not ready, a value written once is yielded at most once per subscriber; non-trivial there = operations of different threads overlap)."), vec!["std's DefaultHasher::new() is keyed with constants (the harness computes the same hash)"]),
        Prop::C02 => (format!("{obs_gen}{thr}Oracle: after every notifying update / closing drop the latest Pending waker of every pending subscriber has fired (single thread), and no poll returns Ready after a Pending poll whose waker was not woken since (all engines). Non-trivial (single thread) = >= 2 subscribers pending at the moment of an update or close; (threads) = a poll that returned Ready after a Pending poll of the same subscriber. Also the async-lock guard engine (rules tagged C02: with no guard alive and the executor stalled no pending poll may have an update or the end available; after the owners are dropped with subscriber-side permits outstanding every pending poll is woken)."), vec!["between pause points the OS schedules; a thread not reaching a pause point within 15 ms is presumed blocked (affects only which schedule is explored)"]),
        Prop::C03 => (format!("{obs_gen}{thr}Oracle: poll == None iff the model's owner count is 0, upgrade succeeds iff an owner exists; threads: stream ended <=> no owner survived the join, and it ends once the rest is dropped. Non-trivial (single thread) = >= 2 handles dropped with a poll and a close or successful upgrade; (threads) = >= 2 drop/upgrade operations in the program. Also async-flavour handle histories and the async-lock guard engine with its two finales (owners dropped after every guard was released; owners dropped while subscribers hold read guards or granted-but-unpolled lock requests)."), vec!["as C02"]),
        Prop::C04 => (format!("{thr}Recorded invocation/response tickets from one atomic counter; Wing-Gong search against a sequential register (set returns previous, set_if_not_eq, update adds, reads return latest), ending on the final value; guard sections: value stable inside a read guard, no operation both invoked and completed inside another thread's guard interval; a subscriber that is Pending after the join saw the final value last. Plus single-threaded histories in which try_read/try_write must refuse while the harness holds guards, and single-threaded histories judged by the sequential special case of this property on SharedObservable (setter return values, read values, a subscriber stuck behind the final value; tagged C04 only while the observable is a SharedObservable). Non-trivial = operations of different threads overlap in ticket time (threads) / a try_lock was refused (single thread)."), vec!["verdicts come only from recorded histories; timing changes coverage, not soundness"]),
        Prop::C05 => (format!("{vec_gen}Raw subscribers (no adapter), eager or lag-bounded polling. Non-trivial = a mid-history subscription, a committed transaction of >= 2 diffs, and a poll with >= 2 updates pending."), vec!["message boundaries are observed through a harness-internal batched probe subscriber (85-100 % of the cases)"]),
        Prop::C06 => (format!("{vec_gen}Raw subscribers, unconstrained lag, capacities 1..64. Non-trivial = at least one Reset delivered and another subscriber of the same case that never lagged."), vec!["tokio's broadcast channel may hold more than `capacity` messages (rounding up): only Reset => lag is asserted, never the converse"]),
        Prop::C07 => (format!("{vec_gen}Transaction-heavy histories (bodies of 0-6 operations). Non-trivial = a transaction abandoned after >= 2 effective operations, or committed after a rollback, or a clear() after recorded diffs."), vec![]),
        Prop::C08 => (format!("{vec_gen}Histories ending with the vector dropped (85 %). Non-trivial = some subscriber had undelivered updates (or was mid-batch) when the vector was dropped."), vec![]),
        Prop::C09 => (format!("{vec_gen}Exactly one Head/Tail/Skip stage (nine variants). Non-trivial = the view was full at one compared instant and not full at another, with a limit change and a source operation between two polls (or no limit change at all for the fixed variants). The exact trigger of known finding K1 is substituted (excluded_known) or ends the case (known_finding_hits)."), vec!["K1 (Tail limit decrease with old > len > new >= 1) is excluded exactly; see KNOWN_FINDINGS.txt"]),
        Prop::C10 => (format!("{vec_gen}Exactly one Filter/FilterMap stage, all 256 masks over key % 8. Non-trivial = the mask keeps some and drops some of the items present, and a Set flipped an item's status or a Reset arrived."), vec![]),
        Prop::C11 => (format!("{vec_gen}Exactly one Sort/SortBy/SortByKey stage; comparators with ties; elements carry an identity so the permutation check is exact. Non-trivial = a compared view with two items that compare equal, and a Set that changed an item's sort key. Non-benign Truncate (K2) is substituted or ends the case."), vec!["K2 (Truncate reaching a sort stage unless every removed item sorts strictly after every kept one) is excluded exactly"]),
        Prop::C12 => (format!("{vec_gen}Pipelines of 2-3 stages from all 14 kinds. Non-trivial = some diff crossed every stage boundary in one poll."), vec!["K1/K2 hits end the case (counted)"]),
        Prop::C13 => (format!("{vec_gen}Batched pipelines of 0-3 stages, transaction-heavy; fixed-parameter pipelines get an unbatched twin. Non-trivial = a source batch of >= 2 diffs reached an adapter, or a multi-diff commit happened in a case whose twin was compared."), vec![]),
        Prop::C14 => (format!("{vec_gen}All stream kinds, eager-heavy polling. Non-trivial = a limit change and a source operation both arrived while the stream was Pending (or, without dynamic stages, >= 4 polls)."), vec![]),
        Prop::C15 => (format!("{vec_gen}Static Head/Tail alone and in chains; the bound is checked after every single diff by the tap. Non-trivial = an inserting diff arrived while the bounded view was full."), vec![]),
        Prop::C16 => (format!("{obs_gen}Flavour Both: the case runs on the sync and on the async-lock flavour and the transcripts must be identical. Plus async-only histories with guards held across calls (AsyncCase: acquire/release guards, writer/reader/subscriber tasks under a hand-rolled executor). Non-trivial = the history contains a close and >= 2 polls (differential) / a task queued behind a guard completed after release or a subscriber polled under a write guard became ready, or the owners were dropped while subscriber-side permits (read guards, granted lock requests) were outstanding (guards). The exact trigger of known finding K4 (a get/next_now/next_ref_now/read on a subscriber whose outstanding poll's lock request is queued in front of a pending writer) is skipped and counted (excluded_known)."), vec!["the executor re-polls every woken task before anything is judged stuck", "K4 (async subscriber: parked lock request + writer + second call on the same subscriber deadlock) is excluded exactly; see KNOWN_FINDINGS.txt"]),
        Prop::C17 => (format!("{vec_gen}With explicit out-of-range calls and traversals. Non-trivial = >= 1 out-of-range call and a traversal in which a removal is followed by a non-keep decision."), vec!["the library's bounds panics are recognised by their wording (they are #[track_caller])"]),
        Prop::C19 => (format!("{obs_gen}Handle-heavy histories, both flavours; all count functions compared after every call. Non-trivial = an into_shared or an upgrade, a subscriber clone and a dropped handle. Async: subscriber_count/strong_count equal to the K3 signature are accepted (excluded_known)."), vec!["K3: async-lock subscribers count twice"]),
        Prop::C20 => (format!("{vec_gen}{obs_gen}Every element/value is an instrumented instance (fresh serial per construction and clone; registry per case). Non-trivial = a multi-diff message consumed across polls, a subscriber dropped with a backlog or mid-message or inside a transaction, a lagged subscriber at drop (vector cases); into_shared with live subscribers or a subscriber clone (observable cases)."), vec![]),
        _ => return,
    };
    ctx.rule = rule;
    ctx.assumptions = assumptions.into_iter().map(String::from).collect();
}

pub fn run_check(ctx: &mut Ctx) {
    describe(ctx);
    match ctx.prop {
        Prop::C18 => c18(ctx),
        Prop::C05 | Prop::C06 | Prop::C07 | Prop::C08 | Prop::C09 | Prop::C10 | Prop::C11 | Prop::C12 | Prop::C13 | Prop::C14
        | Prop::C15 | Prop::C17 | Prop::C20 => vec_check(ctx),
        Prop::C01 | Prop::C02 | Prop::C03 | Prop::C16 | Prop::C19 => obs_check(ctx),
        Prop::C04 => c04(ctx),
    }
}

/// Replay one file for a property (the engine is named in the file).
pub fn replay_one(ctx: &mut Ctx, path: &std::path::Path) {
    use crate::campaign::guarded;
    use crate::common::Stop;
    use crate::ctx::load_replay;
    let engine = std::fs::read_to_string(path)
        .ok()
        .and_then(|t| serde_json::from_str::<serde_json::Value>(&t).ok())
        .and_then(|v| v.get("engine").and_then(|e| e.as_str().map(String::from)))
        .unwrap_or_default();
    macro_rules! go {
        ($ty:ty, $run:expr) => {{
            match load_replay::<$ty>(path) {
                Some((_p, _e, case)) => {
                    let r = guarded(&case, &$run);
                    ctx.acc.record(&case, &r);
                    match r {
                        Err(Stop::Violation(m)) => ctx.violations.push((m, path.to_path_buf())),
                        Err(Stop::Internal(m)) => ctx.inconclusive.push(m),
                        Err(Stop::Known(k)) => println!("case stops at known finding {k}"),
                        Err(Stop::Tainted(m)) => println!("case abandoned (assertion of another property failed): {m}"),
                        Ok(_) => {}
                    }
                }
                None => ctx.inconclusive.push(format!("cannot parse replay {}", path.display())),
            }
        }};
    }
    let prop = ctx.prop;
    match engine.as_str() {
        "pure" => go!(engine_pure::PureCase, engine_pure::run),
        "vec" => go!(VecCase, |c: &VecCase| engine_vec::run(c, prop)),
        "obs" => go!(ObsCase, |c: &ObsCase| engine_obs::run(c, prop)),
        "async" => go!(crate::engine_async::AsyncCase, |c: &crate::engine_async::AsyncCase| crate::engine_async::run(c, prop)),
        "thr" => go!(ThrCase, |c: &ThrCase| engine_thr::run_repeated(c, prop, 2000)),
        "zst" => go!(crate::engine_zst::ZCase, |c: &crate::engine_zst::ZCase| crate::engine_zst::run(c, prop)),
        "shape" => go!(crate::engine_zst::ShapeCase, |c: &crate::engine_zst::ShapeCase| crate::engine_zst::run_shape(c, prop)),
        "zvec" => go!(crate::engine_zvec::ZvCase, |c: &crate::engine_zvec::ZvCase| crate::engine_zvec::run(c, prop)),
        e => ctx.inconclusive.push(format!("unknown engine {e:?} in {}", path.display())),
    }
}

fn c18(ctx: &mut Ctx) {
    ctx.rule = "cases = (vector, diff, element mapping f). Enumerated: every vector of length <= 4 over {0,1,2} x every diff kind with every index 0..=len+1 and payloads of <= 2 items x f in {identity,+1,%3,const}. Random: vectors up to 200 items (imbl multi-chunk), indices 0..=len+2. Non-trivial = the diff changes the vector or must panic (beyond-the-end insert/set/remove); distinct = distinct (vector,diff,f) triple".into();
    ctx.assumptions = vec![
        "the harness's own 40-line reference semantics of the eleven diff kinds on a plain Vec is the documented meaning".into(),
        "element mappings are pure functions u8 -> u8".into(),
    ];
    ctx.regress_dir("regress", "pure", &engine_pure::run);
    ctx.enumerated(
        "exhaustive-small",
        "pure",
        engine_pure::enumerate(4),
        &engine_pure::run,
        Some("vectors len<=4 over 3 values x all diffs (indices 0..=len+1, payload<=2) x 4 mappings"),
    );
    let n = ctx.pick(1_000_000, 4_000_000);
    ctx.random("random-large", "pure", &|| engine_pure::strategy(200), &engine_pure::run, n);
}

/// Generator configurations per property: (phase name, config, quick cases, thorough cases).
pub fn vec_phases(prop: Prop) -> Vec<(&'static str, GenCfg, u64, u64)> {
    let d = GenCfg::default();
    let single = |kinds: &[StageKind]| Pipes::Single(kinds.to_vec());
    match prop {
        Prop::C05 => vec![(
            "raw-subscribers-bounded-lag",
            GenCfg { pipes: Pipes::None, policies: vec![Policy::Eager, Policy::Bounded, Policy::Bounded], probe_pct: 90, w_subscribe: 2, final_drop_pct: 20, ..d.clone() },
            300_000,
            4_000_000,
        )],
        Prop::C06 => vec![(
            "raw-subscribers-free-lag",
            GenCfg {
                pipes: Pipes::None,
                capacities: vec![1, 1, 2, 2, 3, 5, 7, 16, 64],
                policies: vec![Policy::Eager, Policy::Lazy, Policy::Lazy, Policy::Lazy],
                probe_pct: 100,
                w_subscribe: 2,
                w_poll: 3,
                initial_subs: (1, 4),
                final_drop_pct: 20,
                ..d.clone()
            },
            300_000,
            4_000_000,
        )],
        Prop::C07 => vec![(
            "transactions",
            GenCfg {
                pipes: Pipes::None,
                w_vop: 3,
                w_txn: 8,
                probe_pct: 70,
                initial_subs: (0, 3),
                max_ops: 12,
                final_drop_pct: 20,
                ..d.clone()
            },
            300_000,
            3_000_000,
        )],
        Prop::C08 => vec![(
            "drop-vector",
            GenCfg {
                pipes: Pipes::None,
                capacities: vec![1, 2, 3, 4, 16],
                policies: vec![Policy::Eager, Policy::Lazy, Policy::Lazy, Policy::Bounded],
                initial_subs: (1, 3),
                final_drop_pct: 85,
                max_ops: 16,
                probe_pct: 90,
                ..d.clone()
            },
            300_000,
            3_000_000,
        )],
        Prop::C09 => vec![(
            "head-tail-skip-single-stage",
            GenCfg { pipes: single(&HTS), w_limit: 6, initial_subs: (1, 2), w_subscribe: 1, w_dropsub: 0, probe_pct: 95, ..d.clone() },
            1_000_000,
            20_000_000,
        )],
        Prop::C10 => vec![(
            "filter-single-stage",
            GenCfg { pipes: single(&FILTERS), capacities: vec![1, 2, 3, 16, 64], initial_subs: (1, 2), w_dropsub: 0, probe_pct: 95, ..d.clone() },
            400_000,
            6_000_000,
        )],
        Prop::C11 => vec![(
            "sort-single-stage",
            GenCfg { pipes: single(&SORTS), capacities: vec![1, 2, 3, 16, 64], initial_subs: (1, 2), w_dropsub: 0, probe_pct: 95, ..d.clone() },
            400_000,
            6_000_000,
        )],
        Prop::C12 => vec![(
            "chains",
            GenCfg { pipes: Pipes::Chain, w_limit: 6, initial_subs: (1, 2), w_dropsub: 0, probe_pct: 95, max_initial: 8, ..d.clone() },
            500_000,
            8_000_000,
        )],
        Prop::C13 => vec![
            (
                "batched-fixed-with-twin",
                GenCfg {
                    pipes: Pipes::Any,
                    batched_pct: 100,
                    twin: true,
                    w_txn: 8,
                    w_vop: 5,
                    initial_subs: (1, 2),
                    w_dropsub: 0,
                    capacities: vec![4, 16, 64],
                    probe_pct: 100,
                    ..d.clone()
                },
                250_000,
                3_000_000,
            ),
            (
                "batched-dynamic",
                GenCfg { pipes: Pipes::Any, batched_pct: 100, w_txn: 8, w_vop: 5, w_limit: 5, initial_subs: (1, 2), w_dropsub: 0, probe_pct: 100, ..d.clone() },
                200_000,
                3_000_000,
            ),
        ],
        Prop::C14 => vec![(
            "all-streams-poll-after-every-op",
            GenCfg {
                pipes: Pipes::Any,
                policies: vec![Policy::Eager, Policy::Eager, Policy::Lazy],
                w_limit: 6,
                w_poll: 6,
                initial_subs: (1, 3),
                probe_pct: 95,
                final_drop_pct: 60,
                ..d.clone()
            },
            500_000,
            6_000_000,
        )],
        Prop::C15 => vec![
            ("static-head-tail", GenCfg { pipes: single(&STATIC_HT), initial_subs: (1, 2), w_dropsub: 0, ..d.clone() }, 300_000, 4_000_000),
            ("static-head-tail-in-chains", GenCfg { pipes: Pipes::Chain, initial_subs: (1, 2), w_dropsub: 0, w_limit: 3, ..d.clone() }, 150_000, 2_000_000),
        ],
        Prop::C17 => vec![(
            "mutators-and-traversal",
            GenCfg { pipes: Pipes::None, oob: true, w_txn: 5, initial_subs: (0, 2), probe_pct: 70, max_ops: 16, w_poll: 1, ..d.clone() },
            400_000,
            4_000_000,
        )],
        Prop::C20 => vec![
            ("raw-and-transactions", GenCfg { pipes: Pipes::None, w_txn: 5, initial_subs: (0, 4), w_dropsub: 3, ..d.clone() }, 150_000, 1_500_000),
            ("adapters", GenCfg { pipes: Pipes::Any, w_limit: 4, initial_subs: (1, 3), w_dropsub: 3, ..d.clone() }, 150_000, 1_500_000),
        ],
        _ => vec![],
    }
}

fn vec_check(ctx: &mut Ctx) {
    let prop = ctx.prop;
    let run = move |c: &VecCase| engine_vec::run(c, prop);
    ctx.regress_dir("regress", "vec", &run);
    ctx.known_findings("vec", &run);
    for (name, cfg, q, t) in vec_phases(prop) {
        let n = ctx.pick(q, t);
        ctx.random(name, "vec", &|| vec_gen::case(&cfg), &run, n);
    }
    // the first phase again with a `tracing` subscriber installed (eyeball-im's instrumentation runs)
    if matches!(prop, Prop::C05 | Prop::C06 | Prop::C07 | Prop::C08 | Prop::C14 | Prop::C17) {
        if let Some((_, cfg, q, t)) = vec_phases(prop).into_iter().next() {
            let run_t = move |c: &VecCase| crate::common::with_tracing(|| engine_vec::run(c, prop));
            let n = ctx.pick(q / 15, t / 15);
            ctx.random("tracing-subscriber-installed", "vec", &|| vec_gen::case(&cfg), &run_t, n);
        }
    }
    // elements of a zero-sized type: lengths, applicability and ends are all there is to observe
    if matches!(prop, Prop::C05 | Prop::C08 | Prop::C09 | Prop::C10 | Prop::C11) {
        let run_z = move |c: &crate::engine_zvec::ZvCase| crate::engine_zvec::run(c, prop);
        let views = crate::engine_zvec::views_for(prop);
        let n = ctx.pick(30_000, 400_000);
        ctx.random("zero-sized-elements", "zvec", &move || crate::engine_zvec::case(views.clone()), &run_z, n);
    }
    // the same generators on vectors of up to 200 items: imbl switches from its inline /
    // single-chunk representation to a multi-chunk RRB tree at 64 items
    if let Some((_, cfg, q, t)) = vec_phases(prop).into_iter().next() {
        let big = GenCfg { max_initial: 200, max_ops: 14, max_append: 150, ..cfg };
        let n = ctx.pick(q / 25, t / 25);
        ctx.random("large-vectors", "vec", &|| vec_gen::case(&big), &run, n);
    }
    // long histories (up to 60 operations, large capacities, lazy subscribers): long runs of
    // queued updates between two polls
    if let Some((_, cfg, q, t)) = vec_phases(prop).into_iter().next() {
        let long = GenCfg {
            max_ops: 60,
            initial_subs: (cfg.initial_subs.0.max(1), cfg.initial_subs.1.max(2)),
            max_initial: 16,
            max_txn_body: 48,
            capacities: vec![16, 64, 64, 128],
            policies: vec![Policy::Lazy, Policy::Lazy, Policy::Eager],
            w_poll: 1,
            w_vop: cfg.w_vop.max(10) * 2,
            ..cfg
        };
        let n = ctx.pick(q / 15, t / 8);
        ctx.random("long-histories", "vec", &|| vec_gen::case(&long), &run, n);
    }
    let _ = ALL_KINDS;
    if prop == Prop::C20 {
        ctx.miri_phase();
        // the observable histories (C01-C03, C16, C19 generators) with the instrumented value type
        let run_o = move |c: &ObsCase| engine_obs::run(c, prop);
        ctx.regress_dir("regress", "obs", &run_o);
        let g1 = ObsGen { flavours: vec![Fl::Sync, Fl::Async], w_handle: 10, w_sub: 10, ..ObsGen::default() };
        let n = ctx.pick(200_000, 3_000_000);
        ctx.random("observable-histories", "obs", &|| engine_obs::case(&g1), &run_o, n);
        let l = if ctx.tier == crate::ctx::Tier::Thorough { 5 } else { 4 };
        ctx.enumerated("observable-exhaustive-short-histories", "obs", engine_obs::enumerate(l, Fl::Sync, true), &run_o, Some(&format!("all observable call histories of <= {l} operations from the 22-operation alphabet x unique/shared start")));
        let run_a = move |c: &crate::engine_async::AsyncCase| crate::engine_async::run(c, prop);
        let n = ctx.pick(60_000, 1_000_000);
        ctx.random("async-guards", "async", &|| crate::engine_async::case(), &run_a, n);
    }
    if let Some((_, g, _, _)) = vec_phases(prop).into_iter().next() {
        ctx.fuzz_phase("vec", &|b: &[u8]| crate::decode::vec_case(b, &g), &run, &|c: &VecCase| engine_vec::shrink(c, prop));
    }
    // bounded-exhaustive sweeps
    use crate::vec_enum as ve;
    let deep = ctx.tier == crate::ctx::Tier::Thorough;
    let l = if deep { 3 } else { 2 };
    match prop {
        Prop::C05 => {
            let sp = ve::raw_space(l, vec![4], true);
            let desc = format!("all sequences of <= {l} operations from a {}-operation alphabet (mutators at every position, polls, a 3-op transaction, a mid-history subscription) x initial vectors <= 2 over 2 values x 2 subscriber sets x drop/no drop, capacity 4, lag-bounded polling ({} cases)", sp.alphabet.len(), sp.size());
            ctx.enumerated("exhaustive-small", "vec", sp.iter(), &run, Some(&desc));
        }
        Prop::C06 => {
            let sp = ve::raw_space(l, vec![1, 2, 3], false);
            let desc = format!("all sequences of <= {l} operations from a {}-operation alphabet incl. which subscriber is polled when x initial vectors <= 2 x capacities 1,2,3 x 2 subscriber sets x drop/no drop ({} cases)", sp.alphabet.len(), sp.size());
            ctx.enumerated("exhaustive-small", "vec", sp.iter(), &run, Some(&desc));
        }
        Prop::C07 => {
            let b = if deep { 3 } else { 2 };
            let desc = format!("all transaction bodies of <= {b} operations from 14 (13 mutators/entry/traversal ops + rollback, so every cut point) x commit/drop x initial vectors <= 2 x 3 subscriber sets");
            ctx.enumerated("exhaustive-transaction-bodies", "vec", ve::c07_cases(b), &run, Some(&desc));
        }
        Prop::C09 => {
            let sp = ve::c09_space(l);
            let desc = format!("all sequences of <= {l} operations from a {}-operation alphabet (mutators at every position, 5 limit values, single and draining polls, a transaction) x all 27 Head/Tail/Skip variants with limits 0..=3 x both flavours x initial vectors <= 3 over 2 values ({} cases); K1 trigger substituted", sp.alphabet.len(), sp.size());
            ctx.enumerated("exhaustive-small", "vec", sp.iter(), &run, Some(&desc));
        }
        Prop::C10 => {
            let sp = ve::c10_space(l);
            let desc = format!("all sequences of <= {l} operations from a {}-operation alphabet x Filter/FilterMap x all 4 pass/fail assignments of a 2-value alphabet (so every kept/dropped pattern) x both flavours x initial vectors <= 4 x capacities 1,16 ({} cases)", sp.alphabet.len(), sp.size());
            ctx.enumerated("exhaustive-small", "vec", sp.iter(), &run, Some(&desc));
        }
        Prop::C11 => {
            let sp = ve::c11_space(l);
            let desc = format!("all sequences of <= {l} operations from a {}-operation alphabet without Truncate (K2) x Sort/SortBy/SortByKey x both flavours x initial vectors <= 3 over 3 values with ties ({} cases)", sp.alphabet.len(), sp.size());
            ctx.enumerated("exhaustive-small", "vec", sp.iter(), &run, Some(&desc));
        }
        Prop::C17 => {
            let n = if deep { 6 } else { 5 };
            let desc = format!("every per-element decision list (keep/set/remove/set-then-remove/stop) for vectors of <= {n} items x for_each/entries x direct/in a transaction, and every out-of-range insert/set/remove/entry call with offsets 0..=2");
            ctx.enumerated("exhaustive-traversals", "vec", ve::c17_cases(n), &run, Some(&desc));
        }
        _ => {}
    }
}

pub fn obs_phases(prop: Prop) -> Vec<(&'static str, ObsGen, u64, u64)> {
    let d = ObsGen::default();
    match prop {
        Prop::C01 => vec![("sync-histories", ObsGen { w_handle: 3, ..d.clone() }, 400_000, 6_000_000)],
        Prop::C02 => vec![("sync-many-pending", ObsGen { w_sub: 10, w_poll: 14, w_handle: 4, ..d.clone() }, 300_000, 5_000_000)],
        Prop::C03 => vec![
            ("sync-handles", ObsGen { w_handle: 14, w_write: 5, w_guard: 1, ..d.clone() }, 300_000, 5_000_000),
            // the end-of-stream rules are flavour-independent: the same histories on the async-lock
            // flavour (its value/wake semantics are C16's, a panic or a hang here is C03's too)
            ("async-handles", ObsGen { flavours: vec![Fl::Async], guards_pct: 0, w_handle: 14, w_write: 5, ..d.clone() }, 60_000, 1_000_000),
        ],
        Prop::C16 => vec![
            ("both-flavours-differential", ObsGen { flavours: vec![Fl::Both], guards_pct: 0, w_handle: 6, ..d.clone() }, 200_000, 3_000_000),
            ("async-histories", ObsGen { flavours: vec![Fl::Async], guards_pct: 0, ..d.clone() }, 100_000, 1_000_000),
        ],
        Prop::C19 => vec![
            ("sync-counts", ObsGen { w_handle: 14, w_write: 3, w_sub: 10, w_guard: 1, ..d.clone() }, 200_000, 3_000_000),
            ("async-counts", ObsGen { flavours: vec![Fl::Async], guards_pct: 0, w_handle: 14, w_write: 3, w_sub: 10, ..d.clone() }, 100_000, 2_000_000),
        ],
        _ => vec![],
    }
}

fn obs_check(ctx: &mut Ctx) {
    let prop = ctx.prop;
    if matches!(prop, Prop::C02 | Prop::C03) {
        thr_phases(ctx);
    }
    if prop == Prop::C19 {
        // counts after handles were created, cloned, upgraded and dropped by racing threads
        let run_free = move |c: &ThrCase| engine_thr::run_reps(c, prop, 60);
        let n = ctx.pick(1_500, 40_000);
        let saved = ctx.threads;
        ctx.threads = saved.min(8);
        ctx.random("free-running-threads", "thr", &|| engine_thr::case(false, 4, 6), &run_free, n);
        ctx.threads = saved;
    }
    if prop == Prop::C01 {
        // "the value most recently stored" and "ready exactly for unobserved updates" also when the
        // calls come from several threads (subscribe racing a writer, polls racing sets): the
        // free-running programs of the thread engine, judged by its C01-tagged rules
        let run_free = move |c: &ThrCase| engine_thr::run_reps(c, prop, 60);
        let n = ctx.pick(2_000, 60_000);
        let saved = ctx.threads;
        ctx.threads = saved.min(8);
        ctx.random("free-running-threads", "thr", &|| engine_thr::case(false, 4, 6), &run_free, n);
        ctx.threads = saved;
    }
    let run = move |c: &ObsCase| engine_obs::run(c, prop);
    ctx.regress_dir("regress", "obs", &run);
    ctx.known_findings("obs", &run);
    for (name, cfg, q, t) in obs_phases(prop) {
        let n = ctx.pick(q, t);
        ctx.random(name, "obs", &|| engine_obs::case(&cfg), &run, n);
    }
    // bounded-exhaustive histories
    let deep = ctx.tier == crate::ctx::Tier::Thorough;
    match prop {
        Prop::C01 | Prop::C02 => {
            let l = if deep { 5 } else { 4 };
            ctx.enumerated(
                "exhaustive-short-histories",
                "obs",
                engine_obs::enumerate(l, Fl::Sync, false),
                &run,
                Some(&format!("all call histories of <= {l} operations from a 14-operation alphabet (5 setters, subscribe/subscribe_reset, polls via Stream and Next, next_now, get, clone, reset, drop of the owner) x unique/shared start")),
            );
        }
        Prop::C03 | Prop::C19 => {
            let l = if deep { 5 } else { 4 };
            ctx.enumerated(
                "exhaustive-short-histories",
                "obs",
                engine_obs::enumerate(l, Fl::Sync, true),
                &run,
                Some(&format!("all call histories of <= {l} operations from a 22-operation alphabet incl. clone/drop/downgrade/upgrade/into_shared and subscriber clones x unique/shared start")),
            );
            if prop == Prop::C19 {
                ctx.enumerated("exhaustive-short-histories-async", "obs", engine_obs::enumerate(l - 1, Fl::Async, true), &run, Some(&format!("the same alphabet, <= {} operations, async-lock flavour", l - 1)));
            }
        }
        Prop::C16 => {
            let l = if deep { 5 } else { 4 };
            ctx.enumerated(
                "exhaustive-short-histories-both-flavours",
                "obs",
                engine_obs::enumerate(l, Fl::Both, false),
                &run,
                Some(&format!("all call histories of <= {l} operations from the 14-operation alphabet, run on both flavours and compared")),
            );
        }
        _ => {}
    }
    let fl = if prop == Prop::C16 { Fl::Both } else { Fl::Sync };
    ctx.fuzz_phase("obs", &|b: &[u8]| crate::decode::obs_case(b, fl), &run, &|c: &ObsCase| engine_obs::shrink(c, prop));
    if prop == Prop::C16 {
        let run = move |c: &crate::engine_async::AsyncCase| crate::engine_async::run(c, prop);
        ctx.regress_dir("regress", "async", &run);
        ctx.known_findings("async", &run);
        let n = ctx.pick(150_000, 2_000_000);
        ctx.random("async-guards-held-across-calls", "async", &|| crate::engine_async::case(), &run, n);
    }
    if matches!(prop, Prop::C01 | Prop::C02 | Prop::C03) {
        // the same histories with a `tracing` subscriber installed that enables every level: the
        // library's instrumentation (cargo feature `tracing`, on in every harness build) then runs
        let run_t = move |c: &ObsCase| crate::common::with_tracing(|| engine_obs::run(c, prop));
        if let Some((_, cfg, q, t)) = obs_phases(prop).into_iter().next() {
            let n = ctx.pick(q / 8, t / 8);
            ctx.random("tracing-subscriber-installed", "obs", &|| engine_obs::case(&cfg), &run_t, n);
        }
    }
    if matches!(prop, Prop::C01 | Prop::C02 | Prop::C03) {
        // observables of a zero-sized value type: nothing but notifications to observe
        let run = move |c: &crate::engine_zst::ZCase| crate::engine_zst::run(c, prop);
        let n = ctx.pick(60_000, 1_000_000);
        ctx.random("zero-sized-values", "zst", &|| crate::engine_zst::case(), &run, n);
    }
    if matches!(prop, Prop::C01 | Prop::C02) {
        // conditional setters on byte-string values and on a value type with coarse equality
        let run = move |c: &crate::engine_zst::ShapeCase| crate::engine_zst::run_shape(c, prop);
        let n = ctx.pick(60_000, 1_000_000);
        ctx.random("value-shapes", "shape", &|| crate::engine_zst::shape_case(), &run, n);
    }
    if matches!(prop, Prop::C01 | Prop::C02 | Prop::C03) {
        // the async-lock flavour is an Observable / SharedObservable too: the value, wake-up and
        // end-of-stream rules of this property, on histories with guards held across other calls
        let run = move |c: &crate::engine_async::AsyncCase| crate::engine_async::run(c, prop);
        let n = ctx.pick(60_000, 1_000_000);
        ctx.random("async-guards-held-across-calls", "async", &|| crate::engine_async::case(), &run, n);
    }
}

// ---------------------------------------------------------------------------------------------
// thread engine phases

fn prog(owners: u8, ops: &[TOp]) -> ThrProg {
    ThrProg { owners, ops: ops.to_vec() }
}

/// Fixed base programs whose complete schedule space (at the pause points) is enumerated.
pub fn directed_programs(prop: Prop) -> Vec<(&'static str, ThrCase)> {
    use TOp::*;
    let c = |threads: Vec<ThrProg>, main_owner: bool| ThrCase { threads, main_owner, schedule: Some(vec![]), late_subs: false, recorded: None };
    match prop {
        Prop::C03 => vec![
            ("drop||drop", c(vec![prog(1, &[DropOwner]), prog(1, &[DropOwner])], false)),
            ("drop||upgrade", c(vec![prog(1, &[DropOwner]), prog(0, &[Upgrade])], false)),
            ("drop||upgrade;drop", c(vec![prog(1, &[DropOwner]), prog(0, &[Upgrade, DropOwner])], false)),
            ("drop;drop||drop", c(vec![prog(2, &[DropOwner, DropOwner]), prog(1, &[DropOwner])], false)),
            ("drop||drop||upgrade", c(vec![prog(1, &[DropOwner]), prog(1, &[DropOwner]), prog(0, &[Upgrade])], false)),
            ("drop||upgrade||upgrade", c(vec![prog(1, &[DropOwner]), prog(0, &[Upgrade]), prog(0, &[Upgrade])], false)),
            ("drop||poll", c(vec![prog(1, &[DropOwner]), prog(0, &[Poll, Poll])], false)),
            ("drop||drop (main keeps an owner)", c(vec![prog(1, &[DropOwner]), prog(1, &[DropOwner, Poll])], true)),
        ],
        Prop::C02 => vec![
            ("poll||set", c(vec![prog(0, &[Poll, Poll]), prog(1, &[Set])], true)),
            ("poll||drop", c(vec![prog(0, &[Poll, Poll]), prog(1, &[DropOwner])], false)),
            ("poll||set;drop", c(vec![prog(0, &[Poll, Poll]), prog(1, &[Set, DropOwner])], false)),
            ("poll||poll||set", c(vec![prog(0, &[Poll, Poll]), prog(0, &[Poll, Poll]), prog(1, &[Set])], true)),
            ("poll||set||drop", c(vec![prog(0, &[Poll, Poll]), prog(1, &[Set]), prog(1, &[DropOwner])], false)),
            ("poll||drop||drop", c(vec![prog(0, &[Poll, Poll]), prog(1, &[DropOwner]), prog(1, &[DropOwner])], false)),
            ("poll;poll||set;set", c(vec![prog(0, &[Poll, Poll, Poll]), prog(1, &[Set, Set])], true)),
        ],
        Prop::C04 => vec![
            ("set||set", c(vec![prog(1, &[Set, Get]), prog(1, &[Set, Get])], true)),
            ("poll||set||drop", c(vec![prog(0, &[Poll, NextNow]), prog(1, &[Set, Get]), prog(1, &[DropOwner])], true)),
            ("set||upgrade;set", c(vec![prog(1, &[Set, DropOwner]), prog(0, &[Upgrade, Set, Get])], true)),
        ],
        _ => vec![],
    }
}

fn thr_phases(ctx: &mut Ctx) {
    use crate::campaign::{Acc, CaseReport};
    use crate::common::Stop;
    let prop = ctx.prop;
    // replays
    let run_replay = move |c: &ThrCase| engine_thr::run_repeated(c, prop, 300);
    ctx.regress_dir("regress", "thr", &run_replay);
    if ctx.failed() {
        return;
    }
    // directed: enumerate the schedule space of every fixed program
    let max_sched = ctx.pick(400, 5_000);
    for (name, base) in directed_programs(prop) {
        if ctx.failed() {
            return;
        }
        let t0 = std::time::Instant::now();
        let ex = engine_thr::explore(&base, prop, max_sched);
        let mut acc = Acc::default();
        for (i, rep) in ex.reports.iter().enumerate() {
            let mut c = base.clone();
            c.schedule = Some(vec![i as u8]);
            let r: Result<CaseReport, Stop> = Ok(rep.clone());
            acc.record(&serde_json::json!({"program": name, "schedule_no": i, "threads": base.threads}), &r);
        }
        acc.internal_errors.extend(ex.internal.iter().cloned());
        if let Some((case, msg)) = ex.failure {
            acc.evaluations += 1;
            let p = ctx.write_replay("thr", &case, &msg, &format!("directed schedule enumeration of program {name}"));
            ctx.violations.push((msg, p));
        } else if ex.complete {
            ctx.exhaustive_spaces.push(format!("all release orders at the pause points of program `{name}` ({} schedules)", ex.schedules));
        }
        ctx.absorb(&format!("directed:{name}"), acc, serde_json::json!({"kind": "directed schedule enumeration", "schedules": ex.schedules, "complete": ex.complete}), t0);
    }
    if ctx.failed() {
        return;
    }
    // directed, generated programs: each generated (program, schedule prefix) is one execution
    let run = move |c: &ThrCase| engine_thr::run(c, prop);
    let n = ctx.pick(1_500, 40_000);
    let saved = ctx.threads;
    ctx.threads = 1; // the director is process-global
    ctx.random("directed-generated-programs", "thr", &|| engine_thr::case(true, 3, 3), &run, n);
    ctx.threads = saved.min(8);
    // free-running rounds
    // free-running: every generated program is executed 60 times on one set of worker threads
    let run_free = move |c: &ThrCase| engine_thr::run_reps(c, prop, 60);
    let n = ctx.pick(6_000, 200_000);
    ctx.random("free-running", "thr", &|| engine_thr::case(false, 4, 6), &run_free, n);
    ctx.threads = saved;
    if prop == Prop::C04 && !ctx.failed() {
        // stress programs: one subscriber; thread 0 writes and polls its own subscriber after every
        // write (the real-time rule: a write it has completed is unobserved at its next poll),
        // thread 1 does nothing but clone and drop handles, so that the handle counts move under
        // the writer's feet. Thousands of write/poll pairs per execution, 200 executions each.
        use TOp::*;
        let mk = |w: TOp| {
            let mut t0 = vec![Subscribe];
            for _ in 0..2500 {
                t0.push(w.clone());
                t0.push(Poll);
            }
            ThrCase { threads: vec![prog(1, &t0), prog(1, &vec![CloneChurn(7); 1500])], main_owner: true, schedule: None, late_subs: true, recorded: None }
        };
        let mut cases = vec![mk(Set), mk(Update(1)), mk(WriteSec(0))];
        // equal values from two threads: a conditional set of a fixed value against plain sets of the
        // same value and of other values (a check-then-act conditional setter answers Some(v) for v)
        {
            let mut t0 = vec![];
            for _ in 0..1200 {
                t0.push(SetConst);
                t0.push(Set);
            }
            cases.push(ThrCase { threads: vec![prog(1, &t0), prog(1, &vec![SetConstIfHashNotEq; 2400])], main_owner: true, schedule: None, late_subs: false, recorded: None });
        }
        let reps = ctx.pick(200, 4_000) as u32;
        let run_s = move |c: &ThrCase| engine_thr::run_reps(c, prop, reps);
        let saved = ctx.threads;
        ctx.threads = 1;
        ctx.enumerated("stress:write-poll||handle-churn", "thr", cases.into_iter(), &run_s, None);
        ctx.threads = saved;
    }
}

fn c04(ctx: &mut Ctx) {
    let prop = ctx.prop;
    thr_phases(ctx);
    // single-threaded guard exclusion: try_read / try_write while the harness holds guards
    let run = move |c: &ObsCase| engine_obs::run(c, prop);
    let cfg = ObsGen { guards_pct: 100, w_guard: 12, w_handle: 2, ..ObsGen::default() };
    let n = ctx.pick(100_000, 2_000_000);
    ctx.random("guard-exclusion-single-thread", "obs", &|| engine_obs::case(&cfg), &run, n);
    // sequential histories are degenerate concurrent ones: on a SharedObservable every set returns
    // its predecessor's value, every read the latest write, every subscriber ends on the final value
    let cfg = ObsGen { w_write: 16, w_handle: 3, ..ObsGen::default() };
    let n = ctx.pick(100_000, 2_000_000);
    ctx.random("sequential-histories-single-thread", "obs", &|| engine_obs::case(&cfg), &run, n);
    // conditional setters on values whose == is coarser than identity: a refused write must leave
    // the stored value alone ("every read returns the value of the latest preceding write")
    let run = move |c: &crate::engine_zst::ShapeCase| crate::engine_zst::run_shape(c, prop);
    let n = ctx.pick(60_000, 1_000_000);
    ctx.random("value-shapes", "shape", &|| crate::engine_zst::shape_case(), &run, n);
}

/// Run `n` generated cases of the property's first vector phase and of the observable generator
/// sequentially on this thread (no runner threads, no files): for `cargo miri run`.
pub fn mirirun(prop: Prop, n: u32, seed: u64) -> i32 {
    use crate::campaign::guarded;
    use crate::common::Stop;
    use proptest::strategy::{Strategy, ValueTree};
    use proptest::test_runner::{Config, RngSeed, TestRunner};
    let mut runner = TestRunner::new(Config { failure_persistence: None, rng_seed: RngSeed::Fixed(seed ^ 0x5eed), ..Config::default() });
    let mut done = 0u32;
    if let Some((_, cfg, _, _)) = vec_phases(prop).into_iter().next() {
        let cfg = GenCfg { max_ops: 12, ..cfg };
        let strat = vec_gen::case(&cfg);
        for _ in 0..n {
            let case = strat.new_tree(&mut runner).expect("tree").current();
            match guarded(&case, &|c: &VecCase| engine_vec::run(c, prop)) {
                Err(Stop::Violation(m)) => {
                    println!("VIOLATION-UNDER-MIRI {}: {m}\ncase: {}", prop.name(), serde_json::to_string(&case).unwrap_or_default());
                    return 1;
                }
                Err(Stop::Internal(m)) => {
                    eprintln!("INCONCLUSIVE: {m}");
                    return 2;
                }
                _ => done += 1,
            }
        }
    }
    let og = ObsGen { guards_pct: 0, max_ops: 16, ..ObsGen::default() };
    let strat = engine_obs::case(&og);
    for _ in 0..n / 2 {
        let case = strat.new_tree(&mut runner).expect("tree").current();
        match guarded(&case, &|c: &ObsCase| engine_obs::run(c, prop)) {
            Err(Stop::Violation(m)) => {
                println!("VIOLATION-UNDER-MIRI {}: {m}\ncase: {}", prop.name(), serde_json::to_string(&case).unwrap_or_default());
                return 1;
            }
            Err(Stop::Internal(m)) => {
                eprintln!("INCONCLUSIVE: {m}");
                return 2;
            }
            _ => done += 1,
        }
    }
    println!("MIRI-OK cases={done}");
    0
}
