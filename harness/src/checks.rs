//! Per-property check plans.

use crate::{
    common::Prop,
    ctx::Ctx,
    engine_pure,
};

pub fn run_check(ctx: &mut Ctx) {
    match ctx.prop {
        Prop::C18 => c18(ctx),
        p => ctx.inconclusive.push(format!("no check implemented for {}", p.name())),
    }
}

/// Replay one file for a property. Returns Ok(()) if the case passes.
pub fn replay_one(ctx: &mut Ctx, path: &std::path::Path) {
    use crate::campaign::guarded;
    use crate::common::Stop;
    use crate::ctx::load_replay;
    macro_rules! go {
        ($ty:ty, $run:expr) => {{
            match load_replay::<$ty>(path) {
                Some((_p, _e, case)) => {
                    let r = guarded(&case, &$run);
                    ctx.acc.record(&case, &r);
                    match r {
                        Err(Stop::Violation(m)) => ctx.violations.push((m, path.to_path_buf())),
                        Err(Stop::Internal(m)) => ctx.inconclusive.push(m),
                        Err(Stop::Known(k)) => println!("case stops at known finding {k}"),
                        Err(Stop::Tainted(m)) => println!("case abandoned (assertion of another property failed): {m}"),
                        Ok(_) => {}
                    }
                }
                None => ctx.inconclusive.push(format!("cannot parse replay {}", path.display())),
            }
        }};
    }
    match ctx.prop {
        Prop::C18 => go!(engine_pure::PureCase, engine_pure::run),
        p => ctx.inconclusive.push(format!("no replay implemented for {}", p.name())),
    }
}

fn c18(ctx: &mut Ctx) {
    ctx.rule = "cases = (vector, diff, element mapping f). Enumerated: every vector of length <= 4 over {0,1,2} x every diff kind with every index 0..=len+1 and payloads of <= 2 items x f in {identity,+1,%3,const}. Random: vectors up to 200 items (imbl multi-chunk), indices 0..=len+2. Non-trivial = the diff changes the vector or must panic (beyond-the-end insert/set/remove); distinct = distinct (vector,diff,f) triple".into();
    ctx.assumptions = vec![
        "the harness's own 40-line reference semantics of the eleven diff kinds on a plain Vec is the documented meaning".into(),
        "element mappings are pure functions u8 -> u8".into(),
    ];
    ctx.regress_dir("regress", "pure", &engine_pure::run);
    ctx.enumerated(
        "exhaustive-small",
        "pure",
        engine_pure::enumerate(4),
        &engine_pure::run,
        Some("vectors len<=4 over 3 values x all diffs (indices 0..=len+1, payload<=2) x 4 mappings"),
    );
    let n = ctx.pick(200_000, 4_000_000);
    ctx.random("random-large", "pure", &|| engine_pure::strategy(200), &engine_pure::run, n);
}
