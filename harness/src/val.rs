//! Instrumented element / value types.
//!
//! Every instance (including every clone the library makes) gets a fresh
//! serial from a thread-local registry and releases it on drop. Dropping a
//! serial twice, or touching (clone / compare / hash) a released serial, is
//! recorded as an error; at the end of a case the live set must be empty.
//! The registry is reset at the start of every case, so nothing leaks
//! between cases.

use std::{
    cell::RefCell,
    cmp::Ordering,
    hash::{Hash, Hasher},
};

const FREE: u8 = 0;
const LIVE: u8 = 1;
const DEAD: u8 = 2;

#[derive(Default)]
pub struct Registry {
    states: Vec<u8>,
    pub live: usize,
    pub created: u64,
    pub clones: u64,
    pub drops: u64,
    pub errors: Vec<String>,
}

thread_local! {
    static REG: RefCell<Registry> = RefCell::new(Registry::default());
}

/// Reset the registry for a new case. Values created before the reset must
/// all be gone (the engines own everything they create).
pub fn registry_reset() {
    REG.with(|r| {
        let mut r = r.borrow_mut();
        r.states.clear();
        r.live = 0;
        r.created = 0;
        r.clones = 0;
        r.drops = 0;
        r.errors.clear();
    });
}

pub struct RegistrySnapshot {
    pub live: usize,
    pub created: u64,
    pub clones: u64,
    pub drops: u64,
    pub errors: Vec<String>,
}

pub fn registry_snapshot() -> RegistrySnapshot {
    REG.with(|r| {
        let r = r.borrow();
        RegistrySnapshot {
            live: r.live,
            created: r.created,
            clones: r.clones,
            drops: r.drops,
            errors: r.errors.clone(),
        }
    })
}

fn alloc(is_clone: bool) -> u32 {
    REG.with(|r| {
        let mut r = r.borrow_mut();
        let serial = r.states.len() as u32;
        r.states.push(LIVE);
        r.live += 1;
        if is_clone {
            r.clones += 1;
        } else {
            r.created += 1;
        }
        serial
    })
}

fn touch(serial: u32, what: &str) {
    REG.with(|r| {
        let mut r = r.borrow_mut();
        match r.states.get(serial as usize).copied() {
            Some(LIVE) => {}
            Some(DEAD) => {
                if r.errors.len() < 8 {
                    r.errors.push(format!("use after drop ({what}) of instance #{serial}"));
                }
            }
            _ => {
                // serial from before a reset: harness-level misuse, recorded too
                if r.errors.len() < 8 {
                    r.errors.push(format!("{what} of unknown instance #{serial}"));
                }
            }
        }
    });
}

fn release(serial: u32) {
    // try_with: values may be dropped during thread teardown
    let _ = REG.try_with(|r| {
        let Ok(mut r) = r.try_borrow_mut() else { return };
        match r.states.get(serial as usize).copied() {
            Some(LIVE) => {
                r.states[serial as usize] = DEAD;
                r.live -= 1;
                r.drops += 1;
            }
            Some(DEAD) => {
                if r.errors.len() < 8 {
                    r.errors.push(format!("double drop of instance #{serial}"));
                }
            }
            Some(FREE) | None | Some(_) => {
                // instance from a previous case dropped after reset: ignore
            }
        }
    });
}

/// Plain-data mirror of a `Val` used by models: (key, identity).
pub type MVal = (u8, u16);

/// Vector element. `Eq`/`Ord` look at `key` only (so ties exist), `id` is a
/// stable identity assigned by the harness and preserved by `clone`.
pub struct Val {
    pub key: u8,
    pub id: u16,
    serial: u32,
}

impl Val {
    pub fn new(key: u8, id: u16) -> Self {
        Val { key, id, serial: alloc(false) }
    }
    pub fn m(&self) -> MVal {
        touch(self.serial, "read");
        (self.key, self.id)
    }
    pub fn from_m(m: MVal) -> Self {
        Val::new(m.0, m.1)
    }
}

impl Clone for Val {
    fn clone(&self) -> Self {
        touch(self.serial, "clone");
        Val { key: self.key, id: self.id, serial: alloc(true) }
    }
}

impl Drop for Val {
    fn drop(&mut self) {
        release(self.serial);
    }
}

impl PartialEq for Val {
    fn eq(&self, other: &Self) -> bool {
        touch(self.serial, "eq");
        touch(other.serial, "eq");
        self.key == other.key
    }
}
impl Eq for Val {}
impl PartialOrd for Val {
    fn partial_cmp(&self, other: &Self) -> Option<Ordering> {
        Some(self.cmp(other))
    }
}
impl Ord for Val {
    fn cmp(&self, other: &Self) -> Ordering {
        touch(self.serial, "cmp");
        touch(other.serial, "cmp");
        self.key.cmp(&other.key)
    }
}
impl std::fmt::Debug for Val {
    fn fmt(&self, f: &mut std::fmt::Formatter<'_>) -> std::fmt::Result {
        write!(f, "{}#{}", self.key, self.id)
    }
}

/// Observable value: `Eq` on both fields, `Hash` on `key` only, so that
/// equality-difference and hash-difference are independent inputs.
pub struct OVal {
    pub key: u8,
    pub payload: u8,
    serial: u32,
}

pub type MOVal = (u8, u8);

/// model of `OVal::bump`
pub fn bump_m(v: MOVal, d: u8) -> MOVal {
    let key = if d >= 2 { (v.0 + 1) % 3 } else { v.0 };
    (key, v.1.wrapping_add(d) % 3)
}

impl OVal {
    pub fn new(key: u8, payload: u8) -> Self {
        OVal { key, payload, serial: alloc(false) }
    }
    pub fn m(&self) -> MOVal {
        touch(self.serial, "read");
        (self.key, self.payload)
    }
    pub fn from_m(m: MOVal) -> Self {
        OVal::new(m.0, m.1)
    }
    /// The in-place mutation used by update closures: d >= 2 also changes the key (and with it
    /// the hash), d < 2 only the payload.
    pub fn bump(&mut self, d: u8) {
        touch(self.serial, "update");
        let (k, p) = bump_m((self.key, self.payload), d);
        self.key = k;
        self.payload = p;
    }
}
impl Default for OVal {
    fn default() -> Self {
        OVal::new(0, 0)
    }
}
impl Clone for OVal {
    fn clone(&self) -> Self {
        touch(self.serial, "clone");
        OVal { key: self.key, payload: self.payload, serial: alloc(true) }
    }
}
impl Drop for OVal {
    fn drop(&mut self) {
        release(self.serial);
    }
}
impl PartialEq for OVal {
    fn eq(&self, other: &Self) -> bool {
        touch(self.serial, "eq");
        touch(other.serial, "eq");
        self.key == other.key && self.payload == other.payload
    }
}
impl Eq for OVal {}
impl Hash for OVal {
    fn hash<H: Hasher>(&self, state: &mut H) {
        touch(self.serial, "hash");
        self.key.hash(state);
    }
}
impl std::fmt::Debug for OVal {
    fn fmt(&self, f: &mut std::fmt::Formatter<'_>) -> std::fmt::Result {
        write!(f, "({},{})", self.key, self.payload)
    }
}

/// The hash the library computes for an `OVal` (DefaultHasher with its
/// constant keys over `key`).
pub fn oval_hash(m: MOVal) -> u64 {
    use std::collections::hash_map::DefaultHasher;
    let mut h = DefaultHasher::new();
    m.0.hash(&mut h);
    h.finish()
}
