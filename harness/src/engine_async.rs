//! Engine B2: async-lock flavour with guards held across other calls (C16, second half).
//!
//! Every `async fn` of `SharedObservable<_, AsyncLock>` / `Subscriber<_, AsyncLock>` becomes a
//! task of a hand-rolled single-threaded executor; after every step the executor re-polls every
//! task whose waker fired until nothing is runnable (tokio's lock is FIFO-fair and hands permits
//! to queued waiters, so a woken but un-polled task holds its permit). Oracle: lock model —
//! nothing completes under a write guard, no writer completes under a read guard, results equal
//! the sequential model applied in completion order, and once no guard is held and the executor
//! has stalled no task may be left pending (a writer waiting for the lock is woken on release; a
//! subscriber polled under a write guard becomes ready after the guard is dropped).

use std::{
    future::Future,
    pin::Pin,
    sync::Arc,
    task::{Context, Poll},
};

use eyeball::{AsyncLock, ObservableReadGuard, ObservableWriteGuard, SharedObservable, Subscriber};
use futures_core::Stream;
use proptest::prelude::*;
use serde::{Deserialize, Serialize};

use crate::{
    campaign::CaseReport,
    common::{flag_waker, Flag, Prop, Stop, R},
    engine_obs::Wr,
    val::{oval_hash, registry_reset, registry_snapshot, MOVal, OVal},
};

type Obs = SharedObservable<OVal, AsyncLock>;
type Sub = Subscriber<OVal, AsyncLock>;
type UObs = eyeball::Observable<OVal, AsyncLock>;
type RG = ObservableReadGuard<'static, OVal, AsyncLock>;
type WG = ObservableWriteGuard<'static, OVal, AsyncLock>;

#[derive(Clone, Copy, Debug, Serialize, Deserialize, PartialEq, Eq, Hash)]
pub enum AOp {
    /// start `write().await` / `read().await`; on completion the guard is held by the harness
    AcquireWrite,
    AcquireRead,
    TryWrite,
    TryRead,
    /// drop a held guard (index fraction)
    Release(u8),
    /// write through a held write guard
    GuardWrite(u8, Wr),
    /// start an async writer call as a task
    Write(Wr),
    Get,
    Subscribe,
    SubGet(u8),
    SubNextNow(u8),
    /// poll the subscriber's Stream once (keeps its waker; re-polled by the executor when woken)
    SubPoll(u8),
    SubNext(u8),
    /// `sub.read().await`: the guard is held by the harness on completion
    SubAcquireRead(u8),
    /// `sub.next_ref().await` (started only when something new is available): guard held on completion
    SubNextRef(u8),
    CloneOwner,
    DropOwner,
    /// clone / clone_reset / reset a subscriber in whatever state it is (also with a lock request in flight)
    SubClone(u8),
    SubCloneReset(u8),
    SubReset(u8),
    /// `sub.next_ref_now().await`: guard held on completion, value marked observed
    SubNextRefNow(u8),
    SubscribeReset,
    Downgrade,
    /// upgrade the oldest weak reference: must succeed while an owner exists; the new owner is kept
    Upgrade,
    /// take 4 * (n + 1) read guards at once with try_read (readers never exclude readers), then
    /// release them all
    ReadBurst(u8),
}

#[derive(Clone, Debug, Serialize, Deserialize, PartialEq, Eq, Hash)]
pub struct AsyncCase {
    pub init: (u8, u8),
    pub ops: Vec<AOp>,
    /// 0: release every guard, drain, then drop the owners; 1: drop the owners while guards obtained
    /// through subscribers are still held and while lock requests of subscribers have been granted
    /// but not polled again (guards / tasks borrowing an owner are released / cancelled first,
    /// without running the executor in between)
    #[serde(default)]
    pub finale: u8,
    /// build the observable with `Default::default()` (the model's initial value is then (0, 0))
    #[serde(default)]
    pub start_default: bool,
    /// the owner is a unique `Observable<_, AsyncLock>` (no owner-side guards, clones or weak
    /// references; its `&mut self` writers wait for the read guards subscribers hold)
    #[serde(default)]
    pub unique: bool,
    /// replay of known finding K4: do not exclude its trigger
    #[serde(default)]
    pub strict: bool,
}

enum Out {
    WriteGuard(WG),
    ReadGuard(RG),
    Set(MOVal),
    SetOpt(Option<MOVal>),
    Unit,
    Val(MOVal),
    Sub(Sub),
    SubVal(usize, MOVal),
    SubNext(usize, Option<MOVal>),
    /// (subscriber, guard, marks the value observed, came from next_ref (never after the end))
    SubGuard(usize, RG, bool, bool),
    SubR(Sub),
    SubNextRefNone(usize),
}

struct Task {
    fut: Option<Pin<Box<dyn Future<Output = Out>>>>,
    flag: Arc<Flag>,
    what: String,
    writer: Option<Wr>,
    uses_sub: Option<usize>,
    started_under_write: bool,
    /// spawn order (queue order of lock requests)
    seq: u64,
    /// queues for the write lock
    wants_write: bool,
}

enum Held {
    W(WG),
    R(RG),
    /// read guard obtained through a subscriber (which stays borrowed while it is held)
    RS(RG, usize),
}

struct SubSlot {
    sub: *mut Sub,
    unseen: bool,
    /// flag of an outstanding Stream poll that returned Pending
    stream_flag: Option<Arc<Flag>>,
    /// a notifying update happened after the outstanding Stream poll returned Pending: that
    /// poll's waker is owed a wake-up (by the time no guard is alive), whoever consumes the update
    owed: bool,
    /// Some(seq): the lock request of the outstanding Stream poll has been sitting in the lock's
    /// queue since spawn-order position `seq` (the poll found the lock unavailable)
    queued_seq: Option<u64>,
    polled_under_write: bool,
    busy: bool,
}

struct World {
    prop: Prop,
    rep: CaseReport,
    owners: Vec<*mut Obs>,
    uowner: Option<*mut UObs>,
    weaks: Vec<eyeball::WeakObservable<OVal, AsyncLock>>,
    subs: Vec<SubSlot>,
    held: Vec<Option<Held>>,
    tasks: Vec<Task>,
    value: MOVal,
    closed: bool,
    seq: u64,
    strict: bool,
    k4_excluded: u64,
    // features
    queued_then_completed: u32,
    sub_polled_under_write_then_ready: u32,
    writer_waited: u32,
}

fn model_write(value: &mut MOVal, wr: Wr) -> (Out, bool) {
    let prev = *value;
    match wr {
        Wr::Set(k, p) => {
            *value = (k, p);
            (Out::Set(prev), true)
        }
        Wr::Take => {
            *value = (0, 0);
            (Out::Set(prev), true)
        }
        Wr::SetIfNotEq(k, p) => {
            if prev != (k, p) {
                *value = (k, p);
                (Out::SetOpt(Some(prev)), true)
            } else {
                (Out::SetOpt(None), false)
            }
        }
        Wr::SetIfHashNotEq(k, p) => {
            if oval_hash(prev) != oval_hash((k, p)) {
                *value = (k, p);
                (Out::SetOpt(Some(prev)), true)
            } else {
                (Out::SetOpt(None), false)
            }
        }
        Wr::Update(d) => {
            *value = crate::val::bump_m(*value, d);
            (Out::Unit, true)
        }
        Wr::UpdateIf(d, n) => {
            *value = crate::val::bump_m(*value, d);
            (Out::Unit, n)
        }
    }
}

fn same(a: &Out, b: &Out) -> bool {
    match (a, b) {
        (Out::Set(x), Out::Set(y)) => x == y,
        (Out::SetOpt(x), Out::SetOpt(y)) => x == y,
        (Out::Unit, Out::Unit) => true,
        _ => false,
    }
}
fn show(o: &Out) -> String {
    match o {
        Out::Set(x) => format!("{:?}", x),
        Out::SetOpt(x) => format!("{:?}", x),
        Out::Unit => "()".into(),
        Out::Val(x) => format!("{:?}", x),
        Out::SubVal(_, x) => format!("{:?}", x),
        Out::SubNext(_, x) => format!("{:?}", x),
        Out::WriteGuard(_) => "write guard".into(),
        Out::ReadGuard(_) => "read guard".into(),
        Out::Sub(_) | Out::SubR(_) => "subscriber".into(),
        Out::SubGuard(..) => "subscriber read guard".into(),
        Out::SubNextRefNone(_) => "None".into(),
    }
}

impl World {
    fn fail<T>(&self, msg: String) -> R<T> {
        self.fail_t(&[], msg)
    }
    /// `also`: properties besides C16 that the failed rule belongs to (C01 values/readiness, C02
    /// wake-ups, C03 end of stream: the async flavour is an Observable/SharedObservable too)
    fn fail_t<T>(&self, also: &[Prop], msg: String) -> R<T> {
        if self.prop == Prop::C16 || also.contains(&self.prop) {
            Err(Stop::Violation(format!("[async-lock, guards] {msg}")))
        } else {
            Err(Stop::Tainted(msg))
        }
    }
    fn check(&mut self, c: bool, msg: impl FnOnce() -> String) -> R {
        self.check_t(c, &[], msg)
    }
    fn check_t(&mut self, c: bool, also: &[Prop], msg: impl FnOnce() -> String) -> R {
        self.rep.checks += 1;
        if c {
            Ok(())
        } else {
            self.fail_t(also, msg())
        }
    }
    fn write_held(&self) -> bool {
        self.held.iter().flatten().any(|h| matches!(h, Held::W(_)))
    }
    fn read_held(&self) -> bool {
        self.held.iter().flatten().any(|h| matches!(h, Held::R(_) | Held::RS(..)))
    }
    fn owner(&self) -> Option<&'static Obs> {
        self.owners.first().map(|p| unsafe { &**p })
    }
    fn notify(&mut self) {
        for s in &mut self.subs {
            s.unseen = true;
            if s.stream_flag.is_some() {
                s.owed = true;
            }
        }
    }

    fn spawn(&mut self, what: String, writer: Option<Wr>, uses_sub: Option<usize>, fut: Pin<Box<dyn Future<Output = Out>>>) {
        if let Some(s) = uses_sub {
            self.subs[s].busy = true;
        }
        let flag = Flag::new();
        // a fresh task is runnable
        std::task::Wake::wake_by_ref(&flag);
        let started_under_write = self.write_held();
        self.seq += 1;
        let wants_write = writer.is_some() || what.starts_with("write()");
        self.tasks.push(Task { fut: Some(fut), flag, what, writer, uses_sub, started_under_write, seq: self.seq, wants_write });
    }

    /// A task finished: apply it to the model and compare.
    fn complete(&mut self, ti: usize, out: Out) -> R {
        let wheld = self.write_held();
        let rheld = self.read_held();
        let what = self.tasks[ti].what.clone();
        let writer = self.tasks[ti].writer;
        if let Some(s) = self.tasks[ti].uses_sub {
            self.subs[s].busy = false;
        }
        // lock model
        let needs_lock = !matches!(out, Out::Sub(_)) || true;
        if needs_lock {
            self.check(!wheld, || format!("{what} completed while a write guard is alive"))?;
        }
        let is_writer = writer.is_some() || matches!(out, Out::WriteGuard(_));
        if is_writer {
            self.check(!rheld, || format!("{what} (needs exclusive access) completed while a read guard is alive"))?;
        }
        if self.tasks[ti].started_under_write || (is_writer && false) {
            self.queued_then_completed += 1;
        }
        match out {
            Out::WriteGuard(g) => {
                let seen = (*g).m();
                let v = self.value;
                self.check_t(seen == v, &[Prop::C01], || format!("write guard derefs to {:?}, model value {:?}", seen, v))?;
                self.held.push(Some(Held::W(g)));
            }
            Out::ReadGuard(g) => {
                let seen = (*g).m();
                let v = self.value;
                self.check_t(seen == v, &[Prop::C01], || format!("read guard derefs to {:?}, model value {:?}", seen, v))?;
                self.held.push(Some(Held::R(g)));
            }
            Out::Val(x) => {
                let v = self.value;
                self.check_t(x == v, &[Prop::C01], || format!("{what} returned {:?}, model value {:?}", x, v))?;
            }
            Out::SubGuard(s, g, marks_observed, from_next_ref) => {
                let seen = (*g).m();
                let v = self.value;
                self.check_t(seen == v, &[Prop::C01], || format!("{what}: guard derefs to {:?}, model value {:?}", seen, v))?;
                if from_next_ref {
                    self.check_t(!self.closed, &[Prop::C03], || format!("{what} yielded a guard although the observable is closed"))?;
                }
                if marks_observed {
                    self.subs[s].unseen = false;
                }
                // the subscriber stays borrowed by the guard
                self.subs[s].busy = true;
                self.held.push(Some(Held::RS(g, s)));
            }
            Out::SubNextRefNone(_s) => {
                self.check_t(self.closed, &[Prop::C03], || format!("{what} resolved to None although the observable is alive"))?;
            }
            Out::Sub(s) => {
                let p = Box::into_raw(Box::new(s));
                self.subs.push(SubSlot { sub: p, unseen: false, stream_flag: None, polled_under_write: false, busy: false, owed: false, queued_seq: None });
            }
            Out::SubR(s) => {
                let p = Box::into_raw(Box::new(s));
                self.subs.push(SubSlot { sub: p, unseen: true, stream_flag: None, polled_under_write: false, busy: false, owed: false, queued_seq: None });
            }
            Out::SubVal(s, x) => {
                let v = self.value;
                self.check_t(x == v, &[Prop::C01], || format!("{what} returned {:?}, model value {:?}", x, v))?;
                if what.starts_with("next_now") {
                    self.subs[s].unseen = false;
                }
            }
            Out::SubNext(s, x) => {
                let exp = if self.closed { None } else { Some(self.value) };
                let tags: &[Prop] = if self.closed || x.is_none() { &[Prop::C01, Prop::C03] } else { &[Prop::C01] };
                self.check_t(x == exp, tags, || format!("{what} resolved to {:?}, model expects {:?}", x, exp))?;
                self.subs[s].unseen = false;
            }
            got @ (Out::Set(_) | Out::SetOpt(_) | Out::Unit) => {
                let wr = writer.expect("writer task");
                let (exp, notifies) = model_write(&mut self.value, wr);
                self.check_t(same(&got, &exp), &[Prop::C01], || format!("{what} returned {}, model expects {}", show(&got), show(&exp)))?;
                if notifies {
                    self.notify();
                }
            }
        }
        Ok(())
    }

    /// Re-poll a subscriber stream whose waker fired.
    fn poll_stream(&mut self, s: usize, first: bool) -> R {
        let flag = Flag::new();
        let w = flag_waker(&flag);
        let mut cx = Context::from_waker(&w);
        let sub: &mut Sub = unsafe { &mut *self.subs[s].sub };
        let r = Pin::new(sub).poll_next(&mut cx);
        let wheld = self.write_held();
        match r {
            Poll::Pending => {
                if first && wheld {
                    self.subs[s].polled_under_write = true;
                }
                // Pending is legitimate when the lock is write-held or a writer is queued ahead
                // (FIFO), or when there is nothing new
                self.subs[s].stream_flag = Some(flag);
                self.subs[s].owed = false;
                let unavailable = wheld || self.tasks.iter().any(|t| t.fut.is_some() && t.wants_write);
                if unavailable {
                    if self.subs[s].queued_seq.is_none() {
                        self.subs[s].queued_seq = Some(self.seq);
                    }
                } else {
                    self.subs[s].queued_seq = None;
                }
                Ok(())
            }
            Poll::Ready(x) => {
                self.check(!wheld, || format!("subscriber {s}: stream poll completed while a write guard is alive"))?;
                let exp = if self.closed {
                    None
                } else if self.subs[s].unseen {
                    Some(self.value)
                } else {
                    // the model says Pending: a Ready(Some) here is a spurious item
                    let tags: &[Prop] = if x.is_none() { &[Prop::C01, Prop::C03] } else { &[Prop::C01] };
                    return self.fail_t(tags, format!("subscriber {s}: stream yielded {:?} although it has observed the latest update", x.map(|v| v.m())));
                };
                let got = x.map(|v| v.m());
                let tags: &[Prop] = if got.is_none() || exp.is_none() { &[Prop::C01, Prop::C03] } else { &[Prop::C01] };
                self.check_t(got == exp, tags, || format!("subscriber {s}: stream yielded {:?}, model expects {:?}", got, exp))?;
                if self.subs[s].polled_under_write {
                    self.sub_polled_under_write_then_ready += 1;
                    self.subs[s].polled_under_write = false;
                }
                self.subs[s].unseen = false;
                self.subs[s].stream_flag = None;
                self.subs[s].owed = false;
                self.subs[s].queued_seq = None;
                Ok(())
            }
        }
    }

    /// Run every woken task / stream until nothing is runnable.
    fn run_ready(&mut self) -> R {
        for _round in 0..10_000 {
            let mut progressed = false;
            for ti in 0..self.tasks.len() {
                if self.tasks[ti].fut.is_none() || !self.tasks[ti].flag.woken() {
                    continue;
                }
                progressed = true;
                let flag = Flag::new();
                let w = flag_waker(&flag);
                let mut cx = Context::from_waker(&w);
                self.tasks[ti].flag = flag;
                let r = self.tasks[ti].fut.as_mut().unwrap().as_mut().poll(&mut cx);
                if let Poll::Ready(out) = r {
                    self.tasks[ti].fut = None;
                    self.complete(ti, out)?;
                }
            }
            for s in 0..self.subs.len() {
                let woken = self.subs[s].stream_flag.as_ref().map_or(false, |f| f.woken());
                if woken && !self.subs[s].busy {
                    progressed = true;
                    self.subs[s].stream_flag = None;
                    self.poll_stream(s, false)?;
                }
            }
            if !progressed {
                return Ok(());
            }
        }
        self.fail("executor did not stall after 10000 rounds (tasks keep waking each other)".into())
    }

    /// With no guard held and the executor stalled, nothing may be left pending.
    fn check_quiescent(&mut self) -> R {
        if self.write_held() || self.read_held() {
            return Ok(());
        }
        for ti in 0..self.tasks.len() {
            if self.tasks[ti].fut.is_some() {
                let what = self.tasks[ti].what.clone();
                return self.fail(format!("{what} is still pending although no guard is alive and every woken task has run (lost wakeup on lock release)"));
            }
        }
        // the waker of a Stream poll that was Pending when a notifying update happened is woken,
        // also when another call on the same subscriber (next_now, get, read) consumed the update
        for s in 0..self.subs.len() {
            if let Some(f) = &self.subs[s].stream_flag {
                if self.subs[s].owed && !self.subs[s].busy {
                    let woken = f.woken();
                    self.check_t(woken, &[Prop::C02], || {
                        format!("subscriber {s}: a notifying update happened after its Stream poll returned Pending and no guard is alive any more, but that poll's waker was never woken")
                    })?;
                }
            }
        }
        // a subscriber whose Stream poll is outstanding must be Pending for a model reason
        for s in 0..self.subs.len() {
            if self.subs[s].stream_flag.is_some() && !self.subs[s].busy {
                let ready = self.closed || self.subs[s].unseen;
                let tags: &[Prop] = if self.closed { &[Prop::C02, Prop::C03] } else { &[Prop::C02, Prop::C01] };
                self.check_t(!ready, tags, || {
                    format!("subscriber {s}: an update (or the end) is available and no guard is alive, but its pending poll was never woken")
                })?;
            }
        }
        Ok(())
    }

    /// Finale 1: the last owners go away while subscribers still hold read guards and while lock
    /// requests of subscribers have been granted but not polled again. Subscriber-side permits
    /// never stand in the way of closing: every pending stream poll must be woken and end.
    fn finale_with_outstanding_permits(&mut self) -> R {
        // guards obtained through an owner borrow it: release them, and cancel the tasks (they
        // borrow owners / subscribers), WITHOUT running the executor: subscribers queued behind a
        // write guard are granted the lock now but are not polled before the owners are gone
        let queued_streams = self.subs.iter().filter(|s| s.stream_flag.is_some() && !s.busy).count();
        let had_write = self.write_held();
        for i in 0..self.held.len() {
            if matches!(self.held[i], Some(Held::W(_)) | Some(Held::R(_))) {
                self.held[i] = None;
            }
        }
        for t in &self.tasks {
            if t.fut.is_some() {
                if let Some(s) = t.uses_sub {
                    self.subs[s].busy = false;
                }
            }
        }
        self.tasks.clear();
        let sub_guards = self.held.iter().flatten().count();
        while let Some(p) = self.owners.pop() {
            drop(unsafe { Box::from_raw(p) });
        }
        if let Some(p) = self.uowner.take() {
            drop(unsafe { Box::from_raw(p) });
        }
        self.closed = true;
        self.check_weaks_dead()?;
        if sub_guards > 0 {
            self.rep.classes.push("owners_dropped_while_subscriber_guard_held");
        }
        if had_write && queued_streams > 0 {
            self.rep.classes.push("owners_dropped_with_subscriber_queued_behind_released_write_guard");
        }
        self.run_ready()?;
        for s in 0..self.subs.len() {
            if self.subs[s].stream_flag.is_some() && !self.subs[s].busy {
                return self.fail_t(
                    &[Prop::C02, Prop::C03],
                    format!("subscriber {s}: every owner is gone but its pending poll was never woken (guards held through other subscribers: {sub_guards})"),
                );
            }
        }
        // the guards still show the last value
        let seen_all: Vec<MOVal> = self.held.iter().flatten().filter_map(|h| if let Held::RS(g, _) = h { Some((**g).m()) } else { None }).collect();
        for seen in seen_all {
            let v = self.value;
            self.check_t(seen == v, &[Prop::C01, Prop::C03], || format!("subscriber guard derefs to {:?} after the end, last value {:?}", seen, v))?;
        }
        for i in 0..self.held.len() {
            if let Some(Held::RS(_, s)) = &self.held[i] {
                let s = *s;
                self.subs[s].busy = false;
            }
            self.held[i] = None;
        }
        self.run_ready()?;
        for s in 0..self.subs.len() {
            if self.subs[s].stream_flag.is_none() {
                self.poll_stream(s, false)?;
            } else {
                return self.fail_t(&[Prop::C02, Prop::C03], format!("subscriber {s}: every owner is gone but its pending poll was never woken"));
            }
        }
        Ok(())
    }

    /// Known finding K4: the lock request of an outstanding Stream poll sits in the lock's queue, a
    /// writer queued after it, and now another lock-taking call on the same subscriber would queue
    /// behind that writer: once the request is granted nobody polls it, the writer waits for its
    /// permit and the new call waits for the writer - for ever.
    fn k4_trigger(&mut self, s: usize) -> bool {
        let Some(q) = self.subs[s].queued_seq else { return false };
        if self.subs[s].stream_flag.is_none() {
            return false;
        }
        let hit = self.tasks.iter().any(|t| t.fut.is_some() && t.wants_write && t.seq > q);
        if hit && !self.strict {
            self.k4_excluded += 1;
            return true;
        }
        false
    }

    fn check_weaks_dead(&mut self) -> R {
        for i in 0..self.weaks.len() {
            let up = self.weaks[i].upgrade();
            let ok = up.is_none();
            // (an erroneously revived owner is dropped again right here)
            drop(up);
            self.check_t(ok, &[Prop::C03], || "WeakObservable::upgrade succeeded after every owner was dropped".to_string())?;
        }
        Ok(())
    }

    /// Operations on the unique owner; true if the operation was handled here.
    fn step_unique(&mut self, op: AOp) -> R<bool> {
        let Some(up) = self.uowner else { return Ok(false) };
        // the owner is `&mut`-borrowed by a pending writer task: nothing else may touch it
        let owner_busy = self.tasks.iter().any(|t| t.fut.is_some() && t.writer.is_some());
        match op {
            AOp::Write(wr) => {
                if owner_busy || self.tasks.iter().filter(|t| t.fut.is_some()).count() >= 6 {
                    return Ok(true);
                }
                if self.read_held() {
                    self.writer_waited += 1;
                }
                let o: &'static mut UObs = unsafe { &mut *up };
                let fut: Pin<Box<dyn Future<Output = Out>>> = match wr {
                    Wr::Set(k, p) => Box::pin(async move { Out::Set(UObs::set_async(o, OVal::new(k, p)).await.m()) }),
                    Wr::SetIfNotEq(k, p) => Box::pin(async move { Out::SetOpt(UObs::set_if_not_eq_async(o, OVal::new(k, p)).await.map(|x| x.m())) }),
                    Wr::SetIfHashNotEq(k, p) => Box::pin(async move { Out::SetOpt(UObs::set_if_hash_not_eq_async(o, OVal::new(k, p)).await.map(|x| x.m())) }),
                    Wr::Take => Box::pin(async move { Out::Set(UObs::take_async(o).await.m()) }),
                    Wr::Update(d) => Box::pin(async move {
                        UObs::update_async(o, |v| v.bump(d)).await;
                        Out::Unit
                    }),
                    Wr::UpdateIf(d, n) => Box::pin(async move {
                        UObs::update_if_async(o, |v| {
                            v.bump(d);
                            n
                        })
                        .await;
                        Out::Unit
                    }),
                };
                self.spawn(format!("{:?} (unique owner)", wr), Some(wr), None, fut);
                Ok(true)
            }
            AOp::Get => {
                if !owner_busy {
                    let got = UObs::get_async(unsafe { &*up }).m();
                    let v = self.value;
                    self.check_t(got == v, &[Prop::C01], || format!("get_async on the unique owner returned {:?}, model value {:?}", got, v))?;
                }
                Ok(true)
            }
            AOp::Subscribe | AOp::SubscribeReset => {
                if !owner_busy && self.subs.len() < 4 {
                    let reset = matches!(op, AOp::SubscribeReset);
                    let o: &UObs = unsafe { &*up };
                    let sub = if reset { UObs::subscribe_reset_async(o) } else { UObs::subscribe_async(o) };
                    let p = Box::into_raw(Box::new(sub));
                    self.subs.push(SubSlot { sub: p, unseen: reset, stream_flag: None, polled_under_write: false, busy: false, owed: false, queued_seq: None });
                }
                Ok(true)
            }
            _ => Ok(false),
        }
    }

    fn step(&mut self, op: AOp) -> R {
        let pick = |ix: u8, n: usize| if n == 0 { None } else { Some((ix as usize * n) >> 8) };
        if self.step_unique(op)? {
            self.run_ready()?;
            return self.check_quiescent();
        }
        match op {
            AOp::AcquireWrite => {
                let Some(o) = self.owner() else { return Ok(()) };
                if self.held.iter().flatten().count() + self.tasks.iter().filter(|t| t.fut.is_some()).count() >= 6 {
                    return Ok(());
                }
                if self.write_held() || self.read_held() {
                    self.writer_waited += 1;
                }
                self.spawn("write().await".into(), None, None, Box::pin(async move { Out::WriteGuard(o.write().await) }));
            }
            AOp::AcquireRead => {
                let Some(o) = self.owner() else { return Ok(()) };
                if self.held.iter().flatten().count() + self.tasks.iter().filter(|t| t.fut.is_some()).count() >= 6 {
                    return Ok(());
                }
                self.spawn("read().await".into(), None, None, Box::pin(async move { Out::ReadGuard(o.read().await) }));
            }
            AOp::TryWrite => {
                let Some(o) = self.owner() else { return Ok(()) };
                let r = o.try_write();
                let got = r.is_some();
                drop(r);
                if self.write_held() || self.read_held() {
                    self.check(!got, || "try_write succeeded while a guard is alive".to_string())?;
                }
            }
            AOp::TryRead => {
                let Some(o) = self.owner() else { return Ok(()) };
                let r = o.try_read();
                let got = r.is_some();
                drop(r);
                if self.write_held() {
                    self.check(!got, || "try_read succeeded while a write guard is alive".to_string())?;
                }
            }
            AOp::Release(ix) => {
                let live: Vec<usize> = (0..self.held.len()).filter(|i| self.held[*i].is_some()).collect();
                if let Some(i) = pick(ix, live.len()) {
                    if let Some(Held::RS(_, s)) = &self.held[live[i]] {
                        let s = *s;
                        self.subs[s].busy = false;
                    }
                    self.held[live[i]] = None;
                }
            }
            AOp::GuardWrite(ix, wr) => {
                let live: Vec<usize> = (0..self.held.len()).filter(|i| matches!(self.held[*i], Some(Held::W(_)))).collect();
                let Some(i) = pick(ix, live.len()) else { return Ok(()) };
                let Some(Held::W(g)) = self.held[live[i]].as_mut() else { unreachable!() };
                let mk = |k: u8, p: u8| OVal::new(k, p);
                let got = match wr {
                    Wr::Set(k, p) => Out::Set(ObservableWriteGuard::set(g, mk(k, p)).m()),
                    Wr::SetIfNotEq(k, p) => Out::SetOpt(ObservableWriteGuard::set_if_not_eq(g, mk(k, p)).map(|x| x.m())),
                    Wr::SetIfHashNotEq(k, p) => Out::SetOpt(ObservableWriteGuard::set_if_hash_not_eq(g, mk(k, p)).map(|x| x.m())),
                    Wr::Take => Out::Set(ObservableWriteGuard::take(g).m()),
                    Wr::Update(d) => {
                        ObservableWriteGuard::update(g, |v| v.bump(d));
                        Out::Unit
                    }
                    Wr::UpdateIf(d, n) => {
                        ObservableWriteGuard::update_if(g, |v| {
                            v.bump(d);
                            n
                        });
                        Out::Unit
                    }
                };
                let (exp, notifies) = model_write(&mut self.value, wr);
                self.check_t(same(&got, &exp), &[Prop::C01], || format!("write guard {:?} returned {}, model expects {}", wr, show(&got), show(&exp)))?;
                if notifies {
                    self.notify();
                }
            }
            AOp::Write(wr) => {
                let Some(o) = self.owner() else { return Ok(()) };
                if self.tasks.iter().filter(|t| t.fut.is_some()).count() >= 6 {
                    return Ok(());
                }
                if self.write_held() || self.read_held() {
                    self.writer_waited += 1;
                }
                let fut: Pin<Box<dyn Future<Output = Out>>> = match wr {
                    Wr::Set(k, p) => Box::pin(async move { Out::Set(o.set(OVal::new(k, p)).await.m()) }),
                    Wr::SetIfNotEq(k, p) => Box::pin(async move { Out::SetOpt(o.set_if_not_eq(OVal::new(k, p)).await.map(|x| x.m())) }),
                    Wr::SetIfHashNotEq(k, p) => Box::pin(async move { Out::SetOpt(o.set_if_hash_not_eq(OVal::new(k, p)).await.map(|x| x.m())) }),
                    Wr::Take => Box::pin(async move { Out::Set(o.take().await.m()) }),
                    Wr::Update(d) => Box::pin(async move {
                        o.update(|v| v.bump(d)).await;
                        Out::Unit
                    }),
                    Wr::UpdateIf(d, n) => Box::pin(async move {
                        o.update_if(|v| {
                            v.bump(d);
                            n
                        })
                        .await;
                        Out::Unit
                    }),
                };
                self.spawn(format!("{:?}", wr), Some(wr), None, fut);
            }
            AOp::Get => {
                let Some(o) = self.owner() else { return Ok(()) };
                if self.tasks.iter().filter(|t| t.fut.is_some()).count() >= 6 {
                    return Ok(());
                }
                self.spawn("get().await".into(), None, None, Box::pin(async move { Out::Val(o.get().await.m()) }));
            }
            AOp::Subscribe => {
                let Some(o) = self.owner() else { return Ok(()) };
                if self.subs.len() >= 4 || self.tasks.iter().filter(|t| t.fut.is_some()).count() >= 6 {
                    return Ok(());
                }
                self.spawn("subscribe().await".into(), None, None, Box::pin(async move { Out::Sub(o.subscribe().await) }));
            }
            AOp::SubGet(ix) | AOp::SubNextNow(ix) | AOp::SubNext(ix) => {
                // next() is another poll for an update (it supersedes an outstanding Stream poll's
                // waker): only on subscribers without one; get / next_now leave it parked
                let parked_ok = !matches!(op, AOp::SubNext(_));
                let free: Vec<usize> = (0..self.subs.len()).filter(|i| !self.subs[*i].busy && (parked_ok || self.subs[*i].stream_flag.is_none())).collect();
                let Some(i) = pick(ix, free.len()) else { return Ok(()) };
                let s = free[i];
                if self.tasks.iter().filter(|t| t.fut.is_some()).count() >= 6 {
                    return Ok(());
                }
                if self.k4_trigger(s) {
                    return Ok(());
                }
                let sub: &'static mut Sub = unsafe { &mut *self.subs[s].sub };
                match op {
                    AOp::SubGet(_) => self.spawn(format!("get on subscriber {s}"), None, Some(s), Box::pin(async move { Out::SubVal(s, sub.get().await.m()) })),
                    AOp::SubNextNow(_) => {
                        self.spawn(format!("next_now on subscriber {s}"), None, Some(s), Box::pin(async move { Out::SubVal(s, sub.next_now().await.m()) }))
                    }
                    _ => {
                        // next().await only resolves once there is something new: only start it
                        // when the model says so (or the stream is closed), otherwise it would
                        // legitimately stay pending
                        if self.subs[s].unseen || self.closed {
                            self.spawn(format!("next on subscriber {s}"), None, Some(s), Box::pin(async move { Out::SubNext(s, sub.next().await.map(|v| v.m())) }))
                        }
                    }
                }
            }
            AOp::SubAcquireRead(ix) | AOp::SubNextRef(ix) => {
                let parked_ok = matches!(op, AOp::SubAcquireRead(_));
                let free: Vec<usize> = (0..self.subs.len()).filter(|i| !self.subs[*i].busy && (parked_ok || self.subs[*i].stream_flag.is_none())).collect();
                let Some(i) = pick(ix, free.len()) else { return Ok(()) };
                let s = free[i];
                if self.held.iter().flatten().count() + self.tasks.iter().filter(|t| t.fut.is_some()).count() >= 6 {
                    return Ok(());
                }
                if self.k4_trigger(s) {
                    return Ok(());
                }
                let sub: &'static mut Sub = unsafe { &mut *self.subs[s].sub };
                if matches!(op, AOp::SubAcquireRead(_)) {
                    self.spawn(format!("read on subscriber {s}"), None, Some(s), Box::pin(async move { Out::SubGuard(s, sub.read().await, false, false) }));
                } else if self.subs[s].unseen || self.closed {
                    self.spawn(
                        format!("next_ref on subscriber {s}"),
                        None,
                        Some(s),
                        Box::pin(async move {
                            match sub.next_ref().await {
                                Some(g) => Out::SubGuard(s, g, true, true),
                                None => Out::SubNextRefNone(s),
                            }
                        }),
                    );
                }
            }
            AOp::SubPoll(ix) => {
                // also a subscriber whose earlier poll is still outstanding: polled again with a
                // fresh waker, which supersedes the earlier one (only the latest has to be woken)
                let free: Vec<usize> = (0..self.subs.len()).filter(|i| !self.subs[*i].busy).collect();
                let Some(i) = pick(ix, free.len()) else { return Ok(()) };
                let s = free[i];
                if self.subs[s].stream_flag.is_some() {
                    self.rep.classes.push("outstanding_poll_repeated_with_a_new_waker");
                }
                let first = self.subs[s].stream_flag.is_none();
                self.poll_stream(s, first)?;
            }
            AOp::SubNextRefNow(ix) => {
                let free: Vec<usize> = (0..self.subs.len()).filter(|i| !self.subs[*i].busy).collect();
                let Some(i) = pick(ix, free.len()) else { return Ok(()) };
                let s = free[i];
                if self.held.iter().flatten().count() + self.tasks.iter().filter(|t| t.fut.is_some()).count() >= 6 {
                    return Ok(());
                }
                if self.k4_trigger(s) {
                    return Ok(());
                }
                let sub: &'static mut Sub = unsafe { &mut *self.subs[s].sub };
                self.spawn(format!("next_ref_now on subscriber {s}"), None, Some(s), Box::pin(async move { Out::SubGuard(s, sub.next_ref_now().await, true, false) }));
            }
            AOp::SubscribeReset => {
                let Some(o) = self.owner() else { return Ok(()) };
                if self.subs.len() >= 4 || self.tasks.iter().filter(|t| t.fut.is_some()).count() >= 6 {
                    return Ok(());
                }
                // needs no lock: works at once, also under a write guard
                let p = Box::into_raw(Box::new(o.subscribe_reset()));
                self.subs.push(SubSlot { sub: p, unseen: true, stream_flag: None, polled_under_write: false, busy: false, owed: false, queued_seq: None });
            }
            AOp::ReadBurst(n) => {
                let Some(o) = self.owner() else { return Ok(()) };
                let want = 4 * (n as usize + 1);
                let free = !self.write_held() && self.tasks.iter().all(|t| t.fut.is_none());
                let mut guards = Vec::with_capacity(want);
                for _ in 0..want {
                    match o.try_read() {
                        Some(g) => guards.push(g),
                        None => break,
                    }
                }
                let got = guards.len();
                let held_reads = self.held.iter().flatten().count();
                drop(guards);
                if free {
                    if want >= 16 {
                        self.rep.classes.push("sixteen_or_more_read_guards_at_once");
                    }
                    self.check(got == want, || format!("try_read succeeded only {got} times out of {want} although no write guard is alive and no writer is queued ({held_reads} other read guards held)"))?;
                }
            }
            AOp::Downgrade => {
                if let Some(o) = self.owner() {
                    if self.weaks.len() < 2 {
                        self.weaks.push(o.downgrade());
                    }
                }
            }
            AOp::Upgrade => {
                if let Some(w) = self.weaks.first() {
                    let up = w.upgrade();
                    let n_own = self.owners.len();
                    let got = up.is_some();
                    self.check_t(got == (n_own > 0), &[Prop::C03], || format!("WeakObservable::upgrade returned {} with {n_own} owner(s) alive", if got { "Some" } else { "None" }))?;
                    if let Some(o) = up {
                        if self.owners.len() < 3 {
                            self.owners.push(Box::into_raw(Box::new(o)));
                        }
                    }
                }
            }
            AOp::SubClone(ix) | AOp::SubCloneReset(ix) | AOp::SubReset(ix) => {
                // needs only &Sub / &mut Sub without a task or guard borrowing it
                let free: Vec<usize> = (0..self.subs.len()).filter(|i| !self.subs[*i].busy).collect();
                let Some(i) = pick(ix, free.len()) else { return Ok(()) };
                let s = free[i];
                if matches!(op, AOp::SubReset(_)) {
                    // reset() while a Stream poll is outstanding is fine too: the next poll decides
                    if self.subs[s].stream_flag.is_none() {
                        let sub: &mut Sub = unsafe { &mut *self.subs[s].sub };
                        sub.reset();
                        self.subs[s].unseen = true;
                    }
                } else if self.subs.len() < 6 {
                    let sub: &Sub = unsafe { &*self.subs[s].sub };
                    let reset = matches!(op, AOp::SubCloneReset(_));
                    let c = if reset { sub.clone_reset() } else { sub.clone() };
                    if self.subs[s].stream_flag.is_some() {
                        self.rep.classes.push("subscriber_cloned_with_poll_outstanding");
                    }
                    let unseen = reset || self.subs[s].unseen;
                    let p = Box::into_raw(Box::new(c));
                    self.subs.push(SubSlot { sub: p, unseen, stream_flag: None, polled_under_write: false, busy: false, owed: false, queued_seq: None });
                }
            }
            AOp::CloneOwner => {
                if let Some(o) = self.owner() {
                    if self.owners.len() < 3 {
                        self.owners.push(Box::into_raw(Box::new(o.clone())));
                    }
                }
            }
            AOp::DropOwner => {
                // guards and tasks borrow owners[0]; only extra clones are dropped mid-history
                if self.owners.len() >= 2 {
                    let p = self.owners.pop().unwrap();
                    drop(unsafe { Box::from_raw(p) });
                }
            }
        }
        self.run_ready()?;
        self.check_quiescent()
    }
}

pub fn run(case: &AsyncCase, prop: Prop) -> R<CaseReport> {
    registry_reset();
    let mut w = World {
        prop,
        rep: CaseReport::default(),
        owners: if case.unique {
            vec![]
        } else {
            vec![Box::into_raw(Box::new(if case.start_default { <Obs as Default>::default() } else { SharedObservable::new_async(OVal::new(case.init.0, case.init.1)) }))]
        },
        uowner: if case.unique {
            Some(Box::into_raw(Box::new(if case.start_default { <UObs as Default>::default() } else { UObs::new_async(OVal::new(case.init.0, case.init.1)) })))
        } else {
            None
        },
        weaks: vec![],
        subs: vec![],
        held: vec![],
        tasks: vec![],
        value: if case.start_default { (0, 0) } else { case.init },
        closed: false,
        seq: 0,
        strict: case.strict,
        k4_excluded: 0,
        queued_then_completed: 0,
        sub_polled_under_write_then_ready: 0,
        writer_waited: 0,
    };
    let res = (|| {
        for op in &case.ops {
            w.step(*op)?;
        }
        if case.finale == 1 {
            return w.finale_with_outstanding_permits();
        }
        // finale: release every guard; everything must drain
        // (a queued acquire task completes and hands the harness a new guard: release those too)
        for _ in 0..64 {
            for i in 0..w.held.len() {
                if let Some(Held::RS(_, s)) = &w.held[i] {
                    let s = *s;
                    w.subs[s].busy = false;
                }
                w.held[i] = None;
            }
            w.run_ready()?;
            if !w.write_held() && !w.read_held() {
                break;
            }
        }
        w.check_quiescent()?;
        // drop the last owners: pending stream polls must be woken and end
        w.tasks.clear();
        while let Some(p) = w.owners.pop() {
            drop(unsafe { Box::from_raw(p) });
        }
        if let Some(p) = w.uowner.take() {
            drop(unsafe { Box::from_raw(p) });
        }
        w.closed = true;
        w.check_weaks_dead()?;
        w.run_ready()?;
        w.check_quiescent()?;
        for s in 0..w.subs.len() {
            if w.subs[s].stream_flag.is_none() {
                w.poll_stream(s, false)?;
            }
        }
        Ok(())
    })();
    // teardown in dependency order: tasks (borrow subs/owners), guards, subscribers, owners
    w.tasks.clear();
    w.held.clear();
    for s in w.subs.drain(..) {
        drop(unsafe { Box::from_raw(s.sub) });
    }
    while let Some(p) = w.owners.pop() {
        drop(unsafe { Box::from_raw(p) });
    }
    if let Some(p) = w.uowner.take() {
        drop(unsafe { Box::from_raw(p) });
    }
    res?;
    let snap = registry_snapshot();
    if !snap.errors.is_empty() || snap.live != 0 {
        let msg = format!("value lifecycle: {} live, errors {:?}", snap.live, snap.errors);
        return if prop == Prop::C20 { Err(Stop::Violation(msg)) } else { Err(Stop::Tainted(msg)) };
    }
    let mut rep = w.rep;
    rep.excluded_known += w.k4_excluded;
    if w.k4_excluded > 0 {
        rep.classes.push("k4_trigger_excluded");
    }
    rep.nontrivial = w.queued_then_completed >= 1 || w.sub_polled_under_write_then_ready >= 1 || rep.classes.iter().any(|c| c.starts_with("owners_dropped_"));
    if w.queued_then_completed > 0 {
        rep.classes.push("task_queued_behind_write_guard_completed_after_release");
    }
    if w.sub_polled_under_write_then_ready > 0 {
        rep.classes.push("subscriber_polled_under_write_guard_ready_after_release");
    }
    if w.writer_waited > 0 && case.unique {
        rep.classes.push("unique_owner_writer_started_while_subscriber_guard_alive");
    }
    if w.writer_waited > 0 {
        rep.classes.push("writer_started_while_guard_alive");
    }
    Ok(rep)
}

pub fn case() -> BoxedStrategy<AsyncCase> {
    let k = || 0u8..3;
    let wr = prop_oneof![
        3 => (k(), k()).prop_map(|(a, b)| Wr::Set(a, b)),
        2 => (k(), k()).prop_map(|(a, b)| Wr::SetIfNotEq(a, b)),
        1 => (k(), k()).prop_map(|(a, b)| Wr::SetIfHashNotEq(a, b)),
        1 => Just(Wr::Take),
        2 => (0u8..3).prop_map(Wr::Update),
        1 => (0u8..3, any::<bool>()).prop_map(|(d, n)| Wr::UpdateIf(d, n)),
    ];
    let ix = || any::<u8>();
    let op = prop_oneof![
        4 => Just(AOp::AcquireWrite),
        3 => Just(AOp::AcquireRead),
        1 => Just(AOp::TryWrite),
        1 => Just(AOp::TryRead),
        6 => ix().prop_map(AOp::Release),
        4 => (ix(), wr.clone()).prop_map(|(g, w)| AOp::GuardWrite(g, w)),
        5 => wr.prop_map(AOp::Write),
        2 => Just(AOp::Get),
        3 => Just(AOp::Subscribe),
        2 => ix().prop_map(AOp::SubGet),
        2 => ix().prop_map(AOp::SubNextNow),
        5 => ix().prop_map(AOp::SubPoll),
        2 => ix().prop_map(AOp::SubNext),
        2 => ix().prop_map(AOp::SubAcquireRead),
        2 => ix().prop_map(AOp::SubNextRef),
        1 => Just(AOp::CloneOwner),
        1 => Just(AOp::DropOwner),
        2 => ix().prop_map(AOp::SubClone),
        1 => ix().prop_map(AOp::SubCloneReset),
        1 => ix().prop_map(AOp::SubReset),
        2 => ix().prop_map(AOp::SubNextRefNow),
        1 => Just(AOp::SubscribeReset),
        1 => Just(AOp::Downgrade),
        1 => Just(AOp::Upgrade),
        1 => (0u8..8).prop_map(AOp::ReadBurst),
    ];
    (
        (0u8..3, 0u8..3),
        proptest::collection::vec(op, 0..=30),
        prop_oneof![2 => Just(0u8), 1 => Just(1u8)],
        prop_oneof![3 => Just(false), 1 => Just(true)],
        prop_oneof![4 => Just(false), 1 => Just(true)],
    )
        .prop_map(|(init, ops, finale, start_default, unique)| AsyncCase { init, ops, finale, start_default, unique, strict: false })
        .boxed()
}
