//! Engine B: Observable / SharedObservable / Subscriber histories on one thread, both lock
//! flavours, against a version-free reference model (C01, C02a, C03a, C16a, C19, C20).

use std::sync::Arc;

use proptest::prelude::*;
use serde::{Deserialize, Serialize};

use crate::{
    campaign::CaseReport,
    common::{flag_waker, Flag, PendingMark, Prop, Stop, R},
    obs_flavor::{AsyncF, Flavor, PollRes, SyncF},
    val::{oval_hash, registry_reset, registry_snapshot, MOVal, OVal},
};
use Prop::*;

#[derive(Clone, Copy, Debug, Serialize, Deserialize, PartialEq, Eq, Hash)]
pub enum Wr {
    Set(u8, u8),
    SetIfNotEq(u8, u8),
    SetIfHashNotEq(u8, u8),
    Take,
    Update(u8),
    UpdateIf(u8, bool),
}

#[derive(Clone, Copy, Debug, Serialize, Deserialize, PartialEq, Eq, Hash)]
pub enum Via {
    Stream,
    Next,
    NextRef,
}

#[derive(Clone, Copy, Debug, Serialize, Deserialize, PartialEq, Eq, Hash)]
pub enum ObsOp {
    Write { owner: u8, wr: Wr },
    GuardWrite { guard: u8, wr: Wr },
    OwnerGet(u8),
    CloneOwner(u8),
    DropOwner(u8),
    /// the handle is owned by a closure that panics: it is released by stack unwinding
    DropOwnerUnwinding(u8),
    Downgrade(u8),
    Upgrade(u8),
    CloneWeak(u8),
    DropWeak(u8),
    IntoShared,
    /// `handle.clone_from(&handle_of_another_observable)`: the handle leaves this observable
    CloneFromOther(u8),
    /// `weak.clone_from(&weak_of_another_observable)`, then upgrade it (the handle belongs to the other observable)
    WeakCloneFromOther(u8),
    Subscribe(u8),
    SubscribeReset(u8),
    SubClone(u8),
    SubCloneReset(u8),
    /// `dst.clone_from(&src)` between two live subscribers of the same observable
    SubCloneFrom { dst: u8, src: u8 },
    /// a subscriber of a second, unrelated observable is overwritten with `clone_from(&src)`: from
    /// then on it is one more subscriber of ours, with src's observed state
    ForeignSubCloneFrom(u8),
    /// `mem::swap` two live subscribers: each now lives at the other's address (Subscriber is Unpin)
    SubSwap(u8, u8),
    SubReset(u8),
    SubGet(u8),
    SubRead { sub: u8, hold: bool },
    NextNow(u8),
    NextRefNow { sub: u8, hold: bool },
    Poll { sub: u8, via: Via },
    PollAll,
    /// poll every subscriber (round robin) until 8 * (n + 1) polls were made: dozens of waker
    /// registrations between two updates
    PollBurst(u8),
    DropSub(u8),
    Read { owner: u8, hold: bool },
    WriteLock { owner: u8 },
    TryRead { owner: u8, hold: bool },
    TryWrite { owner: u8, hold: bool },
    DropGuard(u8),
}

#[derive(Clone, Copy, Debug, Serialize, Deserialize, PartialEq, Eq, Hash)]
pub enum Fl {
    Sync,
    Async,
    /// run on both flavours and compare the transcripts (guard-free cases only)
    Both,
}

#[derive(Clone, Debug, Serialize, Deserialize, PartialEq, Eq, Hash)]
pub struct ObsCase {
    pub flavour: Fl,
    pub start_shared: bool,
    pub init: (u8, u8),
    /// guards may be held across operations (sync flavour only)
    pub guards: bool,
    pub ops: Vec<ObsOp>,
    /// replay of the known finding K3: async counts are judged exactly
    #[serde(default)]
    pub strict: bool,
    /// all polls of the case use one waker (one task driving every subscriber)
    #[serde(default)]
    pub shared_waker: bool,
    /// construct the observable with `Default::default()` (initial value (0, 0)) instead of `new`
    #[serde(default)]
    pub start_default: bool,
}

#[derive(Clone, Debug, PartialEq)]
pub enum Ev {
    V(MOVal),
    OV(Option<MOVal>),
    P(PollRes),
    B(bool),
    Unit,
    Skip,
}

#[derive(Default, Debug)]
pub struct OFeat {
    cond_not_stored: u32,
    ready_after_2: u32,
    get_then_poll: u32,
    two_pending_at_notify: u32,
    clones_dropped: u32,
    polls: u32,
    closes: u32,
    into_shared: u32,
    upgrade_ok: u32,
    upgrade_fail: u32,
    sub_clones: u32,
    into_shared_with_subs: u32,
    guards_held: u32,
    wouldblock: u32,
    k3_seen: u64,
}

enum Own<F: Flavor> {
    U(F::U),
    S(F::S),
}

enum GK<F: Flavor> {
    Rd(F::RG),
    Wr(F::WG),
}
struct G<F: Flavor> {
    kind: GK<F>,
    from_sub: Option<usize>,
    from_owner: Option<usize>,
}

struct SubM {
    unseen: bool,
    /// number of notifying updates since this subscriber last observed
    updates_since: u32,
    last_was_get: bool,
    last_pending: Option<PendingMark>,
}

struct W<F: Flavor> {
    prop: Prop,
    strict: bool,
    rep: CaseReport,
    f: OFeat,
    // library side. Field order matters for drop: guards first, then subscribers, weaks, owners.
    guards: Vec<Option<G<F>>>,
    subs: Vec<Option<Box<F::Sub>>>,
    weaks: Vec<Option<F::W>>,
    owners: Vec<Option<Box<Own<F>>>>,
    // model
    value: MOVal,
    closed: bool,
    msubs: Vec<Option<SubM>>,
    allow_guards: bool,
    trace: Vec<Ev>,
    ignored_other: u32,
    shared: Option<Arc<Flag>>,
    /// the observable is (by now) a SharedObservable: its value rules are also C04's (a sequential
    /// history is a degenerate concurrent one: "every set returns the value stored by its immediate
    /// predecessor ... every read returns the value of the latest preceding write")
    is_shared: bool,
    /// handles of a second, unrelated observable (target of clone_from)
    other: Vec<F::S>,
}

fn pick(ix: u8, live: &[usize]) -> Option<usize> {
    if live.is_empty() {
        None
    } else {
        Some(live[(ix as usize * live.len()) >> 8])
    }
}

impl<F: Flavor> W<F> {
    fn sem(&self) -> Vec<Prop> {
        if F::ASYNC {
            vec![C16]
        } else {
            vec![C01]
        }
    }
    /// rules about returned / read values
    fn val(&self) -> Vec<Prop> {
        let mut v = self.sem();
        if !F::ASYNC && self.is_shared {
            v.push(C04);
        }
        v
    }
    fn wake(&self) -> Vec<Prop> {
        if F::ASYNC {
            vec![C16]
        } else {
            vec![C02]
        }
    }
    fn end(&self) -> Vec<Prop> {
        if F::ASYNC {
            vec![C16, C03]
        } else {
            vec![C03]
        }
    }
    fn fail<T>(&self, props: &[Prop], msg: String) -> R<T> {
        if props.contains(&self.prop) {
            Err(Stop::Violation(format!("[{} flavour] {msg}", if F::ASYNC { "async-lock" } else { "sync" })))
        } else {
            Err(Stop::Tainted(msg))
        }
    }
    fn check(&mut self, cond: bool, props: &[Prop], msg: impl FnOnce() -> String) -> R {
        self.rep.checks += 1;
        if cond {
            Ok(())
        } else if (self.prop == C19 && !props.contains(&C19)) || (self.prop == C20 && !props.contains(&C20)) {
            // the count oracle compares the library with the harness's own list of live handles
            // and does not depend on the value/notification model: keep going. Likewise the
            // lifecycle oracle (C20) only counts instances: a wrong count or value elsewhere must
            // not hide a leak that shows at the end of the same history
            self.ignored_other += 1;
            Ok(())
        } else {
            self.fail(props, msg())
        }
    }
    fn stuck<T>(&self, what: &str) -> R<T> {
        // an async operation did not complete although the harness holds no guard
        self.fail(&[C16], format!("{what}: the future did not complete on its first poll although the lock is free"))
    }

    fn live_owners(&self) -> Vec<usize> {
        (0..self.owners.len()).filter(|i| self.owners[*i].is_some()).collect()
    }
    fn live_subs(&self) -> Vec<usize> {
        (0..self.subs.len()).filter(|i| self.subs[*i].is_some()).collect()
    }
    fn live_weaks(&self) -> Vec<usize> {
        (0..self.weaks.len()).filter(|i| self.weaks[*i].is_some()).collect()
    }
    fn live_guards(&self) -> Vec<usize> {
        (0..self.guards.len()).filter(|i| self.guards[*i].is_some()).collect()
    }
    fn write_held(&self) -> bool {
        self.guards.iter().flatten().any(|g| matches!(g.kind, GK::Wr(_)))
    }
    fn read_held(&self) -> bool {
        self.guards.iter().flatten().any(|g| matches!(g.kind, GK::Rd(_)))
    }
    fn sub_has_guard(&self, s: usize) -> bool {
        self.guards.iter().flatten().any(|g| g.from_sub == Some(s))
    }
    fn owner_has_guard(&self, o: usize) -> bool {
        self.guards.iter().flatten().any(|g| g.from_owner == Some(o))
    }

    /// model: a notifying update happened
    fn notify(&mut self) -> R {
        let pending = self.msubs.iter().flatten().filter(|s| s.last_pending.is_some()).count();
        if pending >= 2 {
            self.f.two_pending_at_notify += 1;
        }
        for s in self.msubs.iter_mut().flatten() {
            s.unseen = true;
            s.updates_since += 1;
            s.last_was_get = false;
        }
        self.all_pending_woken("a notifying update")
    }

    /// C02: every pending subscriber's most recent waker has fired
    fn all_pending_woken(&mut self, what: &str) -> R {
        let wake = self.wake();
        for i in 0..self.msubs.len() {
            let Some(s) = &self.msubs[i] else { continue };
            if let Some(fl) = &s.last_pending {
                let w = fl.woken();
                self.check(w, &wake, || format!("subscriber {i} was Pending but {what} did not wake the waker of its last poll"))?;
            }
        }
        Ok(())
    }

    fn model_write(&mut self, wr: Wr) -> (Ev, bool) {
        let prev = self.value;
        match wr {
            Wr::Set(k, p) => {
                self.value = (k, p);
                (Ev::V(prev), true)
            }
            Wr::Take => {
                self.value = (0, 0);
                (Ev::V(prev), true)
            }
            Wr::SetIfNotEq(k, p) => {
                if prev != (k, p) {
                    self.value = (k, p);
                    (Ev::OV(Some(prev)), true)
                } else {
                    self.f.cond_not_stored += 1;
                    (Ev::OV(None), false)
                }
            }
            Wr::SetIfHashNotEq(k, p) => {
                if oval_hash(prev) != oval_hash((k, p)) {
                    self.value = (k, p);
                    (Ev::OV(Some(prev)), true)
                } else {
                    self.f.cond_not_stored += 1;
                    (Ev::OV(None), false)
                }
            }
            Wr::Update(d) => {
                self.value = crate::val::bump_m(self.value, d);
                (Ev::Unit, true)
            }
            Wr::UpdateIf(d, n) => {
                self.value = crate::val::bump_m(self.value, d);
                (Ev::Unit, n)
            }
        }
    }

    fn ev(&mut self, got: Ev, exp: Ev, props: &[Prop], what: impl FnOnce() -> String) -> R {
        self.trace.push(got.clone());
        self.check(got == exp, props, || format!("{}: library returned {:?}, model expects {:?}", what(), got, exp))
    }

    fn poll_sub(&mut self, i: usize, via: Via) -> R {
        self.f.polls += 1;
        let flag = self.shared.clone().unwrap_or_else(Flag::new);
        let w = flag_waker(&flag);
        let sub = self.subs[i].as_mut().unwrap();
        let got = match via {
            Via::Stream => F::sub_poll_stream(sub, &w),
            Via::Next => F::sub_poll_next(sub, &w),
            Via::NextRef => F::sub_poll_next_ref(sub, &w),
        };
        let m = self.msubs[i].as_mut().unwrap();
        let exp = if self.closed {
            PollRes::End
        } else if m.unseen {
            PollRes::Item(self.value)
        } else {
            PollRes::Pending
        };
        let prev = m.last_pending.take();
        // "ready implies flagged": never ready again without the last Pending poll's waker woken
        if got != PollRes::Pending {
            if let Some(p) = prev {
                let woken = p.woken();
                let wake = self.wake();
                self.check(woken, &wake, || format!("subscriber {i}: poll returned {:?} although the waker of its previous Pending poll was never woken", got))?;
            }
        }
        let m = self.msubs[i].as_mut().unwrap();
        match &got {
            PollRes::Pending => m.last_pending = Some(PendingMark::new(&flag)),
            PollRes::Item(_) => {
                if m.updates_since >= 2 {
                    self.f.ready_after_2 += 1;
                }
                if m.last_was_get {
                    self.f.get_then_poll += 1;
                }
                m.unseen = false;
                m.updates_since = 0;
            }
            PollRes::End => {}
        }
        m.last_was_get = false;
        let mut props = self.sem();
        if !F::ASYNC && self.is_shared {
            // C04: "each subscriber observes values in that order ... and ends on the final value"
            let wrong_value = matches!((&got, &exp), (PollRes::Item(a), PollRes::Item(b)) if a != b);
            let stuck_behind = got == PollRes::Pending && matches!(exp, PollRes::Item(_));
            if wrong_value || stuck_behind {
                props.push(C04);
            }
        }
        if got == PollRes::End || exp == PollRes::End {
            props.extend(self.end());
        }
        if got == PollRes::Pending && exp != PollRes::Pending {
            // suspended although an unobserved update / the end of the stream is available
            props.extend(self.wake());
        }
        self.ev(Ev::P(got), Ev::P(exp), &props, || format!("poll of subscriber {i} via {:?}", via))
    }

    fn counts(&mut self) -> R {
        let owners = self.live_owners();
        let n_subs = self.live_subs().len();
        let n_weaks = self.live_weaks().len();
        let Some(o) = owners.first() else { return Ok(()) };
        let strict = self.strict;
        match &**self.owners[*o].as_ref().unwrap() {
            Own::U(u) => {
                let c = F::u_subscriber_count(u);
                if F::ASYNC && !strict && n_subs > 0 && c == 2 * n_subs {
                    self.f.k3_seen += 1;
                    return Ok(());
                }
                self.check(c == n_subs, &[C19], || format!("Observable::subscriber_count() = {c}, live subscribers = {n_subs}{}", if F::ASYNC { " (AsyncLock)" } else { "" }))
            }
            Own::S(s) => {
                let (oc, sc, st, wc) = F::s_counts(s);
                let n_own = owners.len();
                self.check(oc == n_own, &[C19], || format!("observable_count() = {oc}, live clones = {n_own}"))?;
                self.check(wc == n_weaks, &[C19], || format!("weak_count() = {wc}, live weak references = {n_weaks}"))?;
                if F::ASYNC && !strict && n_subs > 0 && sc == 2 * n_subs && st == n_own + 2 * n_subs {
                    self.f.k3_seen += 1;
                    return Ok(());
                }
                let a = if F::ASYNC { " (AsyncLock)" } else { "" };
                self.check(sc == n_subs, &[C19], || format!("subscriber_count() = {sc}, live subscribers = {n_subs}{a}"))?;
                self.check(st == n_own + n_subs, &[C19], || format!("strong_count() = {st}, clones + subscribers = {}{a}", n_own + n_subs))
            }
        }
    }

    fn new_sub(&mut self, s: F::Sub, unseen: bool) {
        self.subs.push(Some(Box::new(s)));
        self.msubs.push(Some(SubM { unseen, updates_since: 0, last_was_get: false, last_pending: None }));
    }

    fn step(&mut self, op: ObsOp) -> R {
        if self.owners.iter().flatten().next().is_some() {
            self.is_shared = self.owners.iter().flatten().all(|o| matches!(**o, Own::S(_)));
        }
        let hold_ok = self.allow_guards && !F::ASYNC;
        let wheld = self.write_held();
        let rheld = self.read_held();
        match op {
            ObsOp::Write { owner, wr } => {
                let Some(o) = pick(owner, &self.live_owners()) else { return Ok(()) };
                let is_unique = matches!(**self.owners[o].as_ref().unwrap(), Own::U(_));
                if wheld || rheld {
                    if is_unique {
                        return Ok(());
                    }
                    // a blocking write would deadlock by contract; try_write must refuse
                    let Own::S(s) = &**self.owners[o].as_ref().unwrap() else { unreachable!() };
                    let sref: &'static F::S = unsafe { &*(s as *const F::S) };
                    let r = F::s_try_write(sref);
                    let blocked = r.is_none();
                    drop(r);
                    self.f.wouldblock += 1;
                    return self.check(blocked, &[C04], || "try_write succeeded while a guard is alive".to_string());
                }
                let sem = self.val();
                let (exp, notifies) = self.model_write(wr);
                let got = {
                    let own = &mut **self.owners[o].as_mut().unwrap();
                    let mk = |k: u8, p: u8| OVal::new(k, p);
                    let r: Option<Ev> = match (own, wr) {
                        (Own::U(u), Wr::Set(k, p)) => F::u_set(u, mk(k, p)).map(|v| Ev::V(v.m())),
                        (Own::U(u), Wr::SetIfNotEq(k, p)) => F::u_set_if_not_eq(u, mk(k, p)).map(|v| Ev::OV(v.map(|x| x.m()))),
                        (Own::U(u), Wr::SetIfHashNotEq(k, p)) => F::u_set_if_hash_not_eq(u, mk(k, p)).map(|v| Ev::OV(v.map(|x| x.m()))),
                        (Own::U(u), Wr::Take) => F::u_take(u).map(|v| Ev::V(v.m())),
                        (Own::U(u), Wr::Update(d)) => F::u_update(u, d).map(|_| Ev::Unit),
                        (Own::U(u), Wr::UpdateIf(d, n)) => F::u_update_if(u, d, n).map(|_| Ev::Unit),
                        (Own::S(s), Wr::Set(k, p)) => F::s_set(s, mk(k, p)).map(|v| Ev::V(v.m())),
                        (Own::S(s), Wr::SetIfNotEq(k, p)) => F::s_set_if_not_eq(s, mk(k, p)).map(|v| Ev::OV(v.map(|x| x.m()))),
                        (Own::S(s), Wr::SetIfHashNotEq(k, p)) => F::s_set_if_hash_not_eq(s, mk(k, p)).map(|v| Ev::OV(v.map(|x| x.m()))),
                        (Own::S(s), Wr::Take) => F::s_take(s).map(|v| Ev::V(v.m())),
                        (Own::S(s), Wr::Update(d)) => F::s_update(s, d).map(|_| Ev::Unit),
                        (Own::S(s), Wr::UpdateIf(d, n)) => F::s_update_if(s, d, n).map(|_| Ev::Unit),
                    };
                    r
                };
                let Some(got) = got else { return self.stuck(&format!("{:?}", wr)) };
                self.ev(got, exp, &sem, || format!("{:?}", wr))?;
                if notifies {
                    self.notify()?;
                }
                Ok(())
            }
            ObsOp::GuardWrite { guard, wr } => {
                let wg: Vec<usize> = self.live_guards().into_iter().filter(|g| matches!(self.guards[*g].as_ref().unwrap().kind, GK::Wr(_))).collect();
                let Some(gi) = pick(guard, &wg) else { return Ok(()) };
                let sem = self.val();
                let (exp, notifies) = self.model_write(wr);
                let GK::Wr(g) = &mut self.guards[gi].as_mut().unwrap().kind else { unreachable!() };
                let mk = |k: u8, p: u8| OVal::new(k, p);
                let got = match wr {
                    Wr::Set(k, p) => Ev::V(F::wg_set(g, mk(k, p)).m()),
                    Wr::SetIfNotEq(k, p) => Ev::OV(F::wg_set_if_not_eq(g, mk(k, p)).map(|x| x.m())),
                    Wr::SetIfHashNotEq(k, p) => Ev::OV(F::wg_set_if_hash_not_eq(g, mk(k, p)).map(|x| x.m())),
                    Wr::Take => Ev::V(F::wg_take(g).m()),
                    Wr::Update(d) => {
                        F::wg_update(g, d);
                        Ev::Unit
                    }
                    Wr::UpdateIf(d, n) => {
                        F::wg_update_if(g, d, n);
                        Ev::Unit
                    }
                };
                let seen = F::wg_get(g);
                self.ev(got, exp, &sem, || format!("write guard {:?}", wr))?;
                let val = self.value;
                self.check(seen == val, &sem, || format!("write guard derefs to {:?}, model value {:?}", seen, val))?;
                if notifies {
                    self.notify()?;
                }
                Ok(())
            }
            ObsOp::OwnerGet(owner) => {
                let Some(o) = pick(owner, &self.live_owners()) else { return Ok(()) };
                if wheld {
                    return Ok(());
                }
                let got = match &**self.owners[o].as_ref().unwrap() {
                    Own::U(u) => Some(F::u_get(u)),
                    Own::S(s) => F::s_get(s),
                };
                let Some(got) = got else { return self.stuck("get") };
                let (sem, val) = (self.val(), self.value);
                self.ev(Ev::V(got), Ev::V(val), &sem, || "get on the observable".to_string())
            }
            ObsOp::CloneOwner(owner) => {
                let Some(o) = pick(owner, &self.live_owners()) else { return Ok(()) };
                if self.live_owners().len() >= 5 {
                    return Ok(());
                }
                if let Own::S(s) = &**self.owners[o].as_ref().unwrap() {
                    let c = F::s_clone(s);
                    self.owners.push(Some(Box::new(Own::S(c))));
                }
                Ok(())
            }
            ObsOp::DropOwner(owner) => {
                let Some(o) = pick(owner, &self.live_owners()) else { return Ok(()) };
                if self.owner_has_guard(o) {
                    return Ok(());
                }
                let last = self.live_owners().len() == 1;
                if last && (wheld || rheld) {
                    // guards borrow from an owner, so the last owner cannot be the one dropped here
                    return Ok(());
                }
                self.owners[o] = None;
                self.f.clones_dropped += 1;
                if last {
                    self.closed = true;
                    self.f.closes += 1;
                    self.all_pending_woken("the drop of the last owner")?;
                }
                Ok(())
            }
            ObsOp::DropOwnerUnwinding(owner) => {
                let Some(o) = pick(owner, &self.live_owners()) else { return Ok(()) };
                if self.owner_has_guard(o) {
                    return Ok(());
                }
                let last = self.live_owners().len() == 1;
                if last && (wheld || rheld) {
                    return Ok(());
                }
                let h = self.owners[o].take().unwrap();
                let r = crate::common::catch(move || {
                    let _owned_here = h;
                    panic!("harness: deliberate panic to release a handle by unwinding");
                });
                debug_assert!(r.is_err());
                self.f.clones_dropped += 1;
                if last {
                    self.closed = true;
                    self.f.closes += 1;
                    self.all_pending_woken("the drop (by unwinding) of the last owner")?;
                }
                Ok(())
            }
            ObsOp::Downgrade(owner) => {
                let Some(o) = pick(owner, &self.live_owners()) else { return Ok(()) };
                if self.live_weaks().len() >= 4 {
                    return Ok(());
                }
                if let Own::S(s) = &**self.owners[o].as_ref().unwrap() {
                    let w = F::s_downgrade(s);
                    self.weaks.push(Some(w));
                }
                Ok(())
            }
            ObsOp::Upgrade(wk) => {
                let Some(wi) = pick(wk, &self.live_weaks()) else { return Ok(()) };
                let r = F::w_upgrade(self.weaks[wi].as_ref().unwrap());
                let ok = r.is_some();
                let exp = !self.closed;
                if let Some(s) = r {
                    if self.live_owners().len() >= 5 {
                        drop(s);
                    } else {
                        self.owners.push(Some(Box::new(Own::S(s))));
                    }
                }
                if ok {
                    self.f.upgrade_ok += 1;
                } else {
                    self.f.upgrade_fail += 1;
                }
                let end = self.end();
                self.ev(Ev::B(ok), Ev::B(exp), &end, || "WeakObservable::upgrade success".to_string())
            }
            ObsOp::CloneWeak(wk) => {
                let Some(wi) = pick(wk, &self.live_weaks()) else { return Ok(()) };
                if self.live_weaks().len() >= 4 {
                    return Ok(());
                }
                let w = F::w_clone(self.weaks[wi].as_ref().unwrap());
                self.weaks.push(Some(w));
                Ok(())
            }
            ObsOp::DropWeak(wk) => {
                let Some(wi) = pick(wk, &self.live_weaks()) else { return Ok(()) };
                self.weaks[wi] = None;
                Ok(())
            }
            ObsOp::IntoShared => {
                let lo = self.live_owners();
                let Some(o) = lo.first().copied() else { return Ok(()) };
                if !matches!(**self.owners[o].as_ref().unwrap(), Own::U(_)) {
                    return Ok(());
                }
                let b = self.owners[o].take().unwrap();
                let Own::U(u) = *b else { unreachable!() };
                let s = F::into_shared(u);
                self.owners[o] = Some(Box::new(Own::S(s)));
                self.f.into_shared += 1;
                if !self.live_subs().is_empty() {
                    self.f.into_shared_with_subs += 1;
                }
                Ok(())
            }
            ObsOp::CloneFromOther(owner) => {
                let Some(o) = pick(owner, &self.live_owners()) else { return Ok(()) };
                if self.owner_has_guard(o) || !matches!(**self.owners[o].as_ref().unwrap(), Own::S(_)) {
                    return Ok(());
                }
                let last = self.live_owners().len() == 1;
                if last && (wheld || rheld) {
                    return Ok(());
                }
                if self.other.is_empty() {
                    self.other.push(F::new_shared(OVal::new(9, 9)));
                }
                let mut b = self.owners[o].take().unwrap();
                if let Own::S(h) = &mut *b {
                    F::s_clone_from(h, &self.other[0]);
                }
                // the handle now belongs to the other observable
                if let Own::S(h) = *b {
                    if self.other.len() < 4 {
                        self.other.push(h);
                    }
                }
                self.f.clones_dropped += 1;
                if last {
                    self.closed = true;
                    self.f.closes += 1;
                    self.all_pending_woken("clone_from replacing the last owner")?;
                }
                Ok(())
            }
            ObsOp::WeakCloneFromOther(wk) => {
                let Some(wi) = pick(wk, &self.live_weaks()) else { return Ok(()) };
                if self.other.is_empty() {
                    self.other.push(F::new_shared(OVal::new(9, 9)));
                }
                let src = F::s_downgrade(&self.other[0]);
                let mut w = self.weaks[wi].take().unwrap();
                F::w_clone_from(&mut w, &src);
                // the weak reference now points at the other observable: it has left this one
                if let Some(h) = F::w_upgrade(&w) {
                    if self.other.len() < 4 {
                        self.other.push(h);
                    }
                }
                Ok(())
            }
            ObsOp::Subscribe(owner) | ObsOp::SubscribeReset(owner) => {
                let Some(o) = pick(owner, &self.live_owners()) else { return Ok(()) };
                if self.live_subs().len() >= 5 {
                    return Ok(());
                }
                let reset = matches!(op, ObsOp::SubscribeReset(_));
                if wheld && !reset {
                    return Ok(());
                }
                let s = match (&**self.owners[o].as_ref().unwrap(), reset) {
                    (Own::U(u), false) => Some(F::u_subscribe(u)),
                    (Own::U(u), true) => Some(F::u_subscribe_reset(u)),
                    (Own::S(s), false) => F::s_subscribe(s),
                    (Own::S(s), true) => Some(F::s_subscribe_reset(s)),
                };
                let Some(s) = s else { return self.stuck("subscribe") };
                self.new_sub(s, reset);
                Ok(())
            }
            ObsOp::SubClone(sub) | ObsOp::SubCloneReset(sub) => {
                let Some(si) = pick(sub, &self.live_subs()) else { return Ok(()) };
                if self.live_subs().len() >= 5 {
                    return Ok(());
                }
                let reset = matches!(op, ObsOp::SubCloneReset(_));
                let s = self.subs[si].as_ref().unwrap();
                let c = if reset { F::sub_clone_reset(s) } else { F::sub_clone(s) };
                let m = self.msubs[si].as_ref().unwrap();
                let (unseen, since) = if reset { (true, 0) } else { (m.unseen, m.updates_since) };
                self.new_sub(c, unseen);
                self.msubs.last_mut().unwrap().as_mut().unwrap().updates_since = since;
                self.f.sub_clones += 1;
                Ok(())
            }
            ObsOp::SubCloneFrom { dst, src } => {
                let live = self.live_subs();
                let (Some(d), Some(sr)) = (pick(dst, &live), pick(src, &live)) else { return Ok(()) };
                if d == sr || self.sub_has_guard(d) {
                    return Ok(());
                }
                let c = F::sub_clone(self.subs[sr].as_ref().unwrap());
                // Clone::clone_from, not `*dst = src.clone()`: the type may override it
                let srcp: *const F::Sub = &**self.subs[sr].as_ref().unwrap();
                Clone::clone_from(&mut **self.subs[d].as_mut().unwrap(), unsafe { &*srcp });
                drop(c);
                let (unseen, since) = {
                    let m = self.msubs[sr].as_ref().unwrap();
                    (m.unseen, m.updates_since)
                };
                let md = self.msubs[d].as_mut().unwrap();
                md.unseen = unseen;
                md.updates_since = since;
                md.last_was_get = false;
                // the copy's readiness no longer depends on wake-ups owed to its old self
                md.last_pending = None;
                self.f.sub_clones += 1;
                self.rep.classes.push("subscriber_clone_from");
                Ok(())
            }
            ObsOp::SubSwap(a, b) => {
                let live = self.live_subs();
                let (Some(x), Some(y)) = (pick(a, &live), pick(b, &live)) else { return Ok(()) };
                if x == y || self.sub_has_guard(x) || self.sub_has_guard(y) {
                    return Ok(());
                }
                let px: *mut F::Sub = &mut **self.subs[x].as_mut().unwrap();
                let py: *mut F::Sub = &mut **self.subs[y].as_mut().unwrap();
                // two distinct boxes: the subscriber objects change places in memory
                unsafe { std::ptr::swap(px, py) };
                self.msubs.swap(x, y);
                self.rep.classes.push("subscribers_swapped_in_memory");
                Ok(())
            }
            ObsOp::ForeignSubCloneFrom(src) => {
                let Some(sr) = pick(src, &self.live_subs()) else { return Ok(()) };
                if self.live_subs().len() >= 5 || wheld {
                    return Ok(());
                }
                if self.other.is_empty() {
                    self.other.push(F::new_shared(OVal::new(9, 9)));
                }
                let Some(mut foreign) = F::s_subscribe(&self.other[0]) else { return self.stuck("subscribe on the second observable") };
                Clone::clone_from(&mut foreign, &**self.subs[sr].as_ref().unwrap());
                let (unseen, since) = {
                    let m = self.msubs[sr].as_ref().unwrap();
                    (m.unseen, m.updates_since)
                };
                self.new_sub(foreign, unseen);
                self.msubs.last_mut().unwrap().as_mut().unwrap().updates_since = since;
                self.f.sub_clones += 1;
                self.rep.classes.push("foreign_subscriber_clone_from");
                Ok(())
            }
            ObsOp::SubReset(sub) => {
                let Some(si) = pick(sub, &self.live_subs()) else { return Ok(()) };
                if self.sub_has_guard(si) {
                    return Ok(());
                }
                F::sub_reset(self.subs[si].as_mut().unwrap());
                let m = self.msubs[si].as_mut().unwrap();
                m.unseen = true;
                // reset() makes the caller's own stream ready without any wake
                m.last_pending = None;
                Ok(())
            }
            ObsOp::SubGet(sub) => {
                let Some(si) = pick(sub, &self.live_subs()) else { return Ok(()) };
                if wheld {
                    return Ok(());
                }
                let Some(got) = F::sub_get(self.subs[si].as_ref().unwrap()) else { return self.stuck("Subscriber::get") };
                self.msubs[si].as_mut().unwrap().last_was_get = true;
                let (sem, val) = (self.val(), self.value);
                self.ev(Ev::V(got), Ev::V(val), &sem, || format!("Subscriber::get on {si}"))
            }
            ObsOp::SubRead { sub, hold } => {
                let Some(si) = pick(sub, &self.live_subs()) else { return Ok(()) };
                if wheld {
                    return Ok(());
                }
                let sref: &'static F::Sub = unsafe { &*(&**self.subs[si].as_ref().unwrap() as *const F::Sub) };
                let Some(g) = F::sub_read(sref) else { return self.stuck("Subscriber::read") };
                let got = F::rg_get(&g);
                if hold && hold_ok && self.live_guards().len() < 3 {
                    self.guards.push(Some(G { kind: GK::Rd(g), from_sub: Some(si), from_owner: None }));
                    self.f.guards_held += 1;
                } else {
                    drop(g);
                }
                self.msubs[si].as_mut().unwrap().last_was_get = true;
                let (sem, val) = (self.val(), self.value);
                self.ev(Ev::V(got), Ev::V(val), &sem, || format!("Subscriber::read on {si}"))
            }
            ObsOp::NextNow(sub) => {
                let Some(si) = pick(sub, &self.live_subs()) else { return Ok(()) };
                if wheld || self.sub_has_guard(si) {
                    return Ok(());
                }
                let Some(got) = F::sub_next_now(self.subs[si].as_mut().unwrap()) else { return self.stuck("next_now") };
                let m = self.msubs[si].as_mut().unwrap();
                m.unseen = false;
                m.updates_since = 0;
                m.last_was_get = true;
                let (sem, val) = (self.val(), self.value);
                self.ev(Ev::V(got), Ev::V(val), &sem, || format!("next_now on {si}"))
            }
            ObsOp::NextRefNow { sub, hold } => {
                let Some(si) = pick(sub, &self.live_subs()) else { return Ok(()) };
                if wheld || self.sub_has_guard(si) {
                    return Ok(());
                }
                let sref: &'static mut F::Sub = unsafe { &mut *(&mut **self.subs[si].as_mut().unwrap() as *mut F::Sub) };
                let Some(g) = F::sub_next_ref_now(sref) else { return self.stuck("next_ref_now") };
                let got = F::rg_get(&g);
                if hold && hold_ok && self.live_guards().len() < 3 {
                    self.guards.push(Some(G { kind: GK::Rd(g), from_sub: Some(si), from_owner: None }));
                    self.f.guards_held += 1;
                } else {
                    drop(g);
                }
                let m = self.msubs[si].as_mut().unwrap();
                m.unseen = false;
                m.updates_since = 0;
                m.last_was_get = true;
                let (sem, val) = (self.val(), self.value);
                self.ev(Ev::V(got), Ev::V(val), &sem, || format!("next_ref_now on {si}"))
            }
            ObsOp::Poll { sub, via } => {
                let Some(si) = pick(sub, &self.live_subs()) else { return Ok(()) };
                if wheld || self.sub_has_guard(si) {
                    return Ok(());
                }
                self.poll_sub(si, via)
            }
            ObsOp::PollAll => {
                if wheld {
                    return Ok(());
                }
                for si in self.live_subs() {
                    if !self.sub_has_guard(si) {
                        self.poll_sub(si, Via::Stream)?;
                    }
                }
                Ok(())
            }
            ObsOp::PollBurst(n) => {
                if wheld {
                    return Ok(());
                }
                let subs: Vec<usize> = self.live_subs().into_iter().filter(|si| !self.sub_has_guard(*si)).collect();
                if subs.is_empty() {
                    return Ok(());
                }
                let total = 8 * (n as usize + 1);
                for k in 0..total {
                    self.poll_sub(subs[k % subs.len()], Via::Stream)?;
                }
                if total >= 33 {
                    self.rep.classes.push("more_than_32_polls_between_two_updates");
                }
                Ok(())
            }
            ObsOp::DropSub(sub) => {
                let Some(si) = pick(sub, &self.live_subs()) else { return Ok(()) };
                if self.sub_has_guard(si) {
                    return Ok(());
                }
                self.subs[si] = None;
                self.msubs[si] = None;
                Ok(())
            }
            ObsOp::Read { owner, hold } | ObsOp::TryRead { owner, hold } => {
                let Some(o) = pick(owner, &self.live_owners()) else { return Ok(()) };
                let Own::S(s) = &**self.owners[o].as_ref().unwrap() else { return Ok(()) };
                let sref: &'static F::S = unsafe { &*(s as *const F::S) };
                let is_try = matches!(op, ObsOp::TryRead { .. });
                if wheld {
                    if !is_try {
                        return Ok(());
                    }
                    let r = F::s_try_read(sref);
                    let blocked = r.is_none();
                    drop(r);
                    self.f.wouldblock += 1;
                    return self.check(blocked, &[C04], || "try_read succeeded while a write guard is alive".to_string());
                }
                let g = if is_try { F::s_try_read(sref) } else { F::s_read(sref) };
                let Some(g) = g else {
                    return if is_try {
                        self.fail(&[C04, C16], "try_read refused although no write guard is alive".into())
                    } else {
                        self.stuck("read")
                    };
                };
                let got = F::rg_get(&g);
                if hold && hold_ok && self.live_guards().len() < 3 {
                    self.guards.push(Some(G { kind: GK::Rd(g), from_sub: None, from_owner: Some(o) }));
                    self.f.guards_held += 1;
                } else {
                    drop(g);
                }
                let (sem, val) = (self.val(), self.value);
                self.ev(Ev::V(got), Ev::V(val), &sem, || "read guard".to_string())
            }
            ObsOp::WriteLock { owner } | ObsOp::TryWrite { owner, .. } => {
                let Some(o) = pick(owner, &self.live_owners()) else { return Ok(()) };
                let Own::S(s) = &**self.owners[o].as_ref().unwrap() else { return Ok(()) };
                let sref: &'static F::S = unsafe { &*(s as *const F::S) };
                let is_try = matches!(op, ObsOp::TryWrite { .. });
                let hold = match op {
                    ObsOp::TryWrite { hold, .. } => hold,
                    _ => true,
                };
                if wheld || rheld {
                    if !is_try {
                        return Ok(());
                    }
                    let r = F::s_try_write(sref);
                    let blocked = r.is_none();
                    drop(r);
                    self.f.wouldblock += 1;
                    return self.check(blocked, &[C04], || "try_write succeeded while a guard is alive".to_string());
                }
                let g = if is_try { F::s_try_write(sref) } else { F::s_write(sref) };
                let Some(g) = g else {
                    return if is_try {
                        self.fail(&[C04, C16], "try_write refused although no guard is alive".into())
                    } else {
                        self.stuck("write")
                    };
                };
                let got = F::wg_get(&g);
                if hold && hold_ok && self.live_guards().len() < 3 {
                    self.guards.push(Some(G { kind: GK::Wr(g), from_sub: None, from_owner: Some(o) }));
                    self.f.guards_held += 1;
                } else {
                    drop(g);
                }
                let (sem, val) = (self.val(), self.value);
                self.ev(Ev::V(got), Ev::V(val), &sem, || "write guard deref".to_string())
            }
            ObsOp::DropGuard(g) => {
                let Some(gi) = pick(g, &self.live_guards()) else { return Ok(()) };
                self.guards[gi] = None;
                Ok(())
            }
        }
    }
}

fn run_flavor<F: Flavor>(case: &ObsCase, prop: Prop) -> R<(CaseReport, OFeat, Vec<Ev>)> {
    let mut w: W<F> = W {
        prop,
        strict: case.strict,
        rep: CaseReport::default(),
        f: OFeat::default(),
        guards: vec![],
        subs: vec![],
        weaks: vec![],
        owners: vec![],
        value: case.init,
        closed: false,
        msubs: vec![],
        allow_guards: case.guards,
        trace: vec![],
        ignored_other: 0,
        shared: if case.shared_waker { Some(Flag::new()) } else { None },
        is_shared: false,
        other: vec![],
    };
    if case.start_default {
        w.value = (0, 0);
        w.owners.push(Some(Box::new(if case.start_shared { Own::S(F::default_shared()) } else { Own::U(F::default_unique()) })));
    } else {
        let v = OVal::new(case.init.0, case.init.1);
        w.owners.push(Some(Box::new(if case.start_shared { Own::S(F::new_shared(v)) } else { Own::U(F::new_unique(v)) })));
    }
    for op in &case.ops {
        w.step(*op)?;
        w.counts()?;
    }
    // finale: release guards, then every subscriber must agree with the model once more, and
    // after the end keeps answering None and still hands out the last value
    for g in w.guards.iter_mut() {
        *g = None;
    }
    for si in w.live_subs() {
        w.poll_sub(si, Via::Stream)?;
        if w.closed {
            w.poll_sub(si, Via::Next)?;
            let got = F::sub_get(w.subs[si].as_ref().unwrap());
            let Some(got) = got else { return w.stuck("get after close") };
            let (end, val) = (w.end(), w.value);
            w.ev(Ev::V(got), Ev::V(val), &end, || format!("Subscriber::get on {si} after the end of the stream"))?;
        }
    }
    let W { rep, f, trace, guards, subs, weaks, owners, other, .. } = w;
    drop(other);
    drop(guards);
    drop(subs);
    drop(weaks);
    drop(owners);
    Ok((rep, f, trace))
}

fn nontrivial(prop: Prop, f: &OFeat) -> bool {
    match prop {
        C01 => f.cond_not_stored >= 1 && f.ready_after_2 >= 1 && f.get_then_poll >= 1,
        C02 => f.two_pending_at_notify >= 1,
        C03 => f.clones_dropped >= 2 && f.polls >= 1 && (f.closes >= 1 || f.upgrade_ok >= 1),
        C16 => f.closes >= 1 && f.polls >= 2,
        C19 => (f.into_shared >= 1 || f.upgrade_ok >= 1 || f.upgrade_fail >= 1) && f.sub_clones >= 1 && f.clones_dropped >= 1,
        C20 => f.into_shared_with_subs >= 1 || f.sub_clones >= 1,
        C04 => f.wouldblock >= 1,
        _ => true,
    }
}

fn classes(f: &OFeat, case: &ObsCase) -> Vec<&'static str> {
    let mut c = vec![];
    if f.cond_not_stored > 0 {
        c.push("conditional_setter_did_not_store");
    }
    if f.ready_after_2 > 0 {
        c.push("ready_after_2_or_more_updates");
    }
    if f.get_then_poll > 0 {
        c.push("get_or_next_now_then_poll");
    }
    if f.two_pending_at_notify > 0 {
        c.push("two_or_more_subscribers_pending_at_update");
    }
    if f.closes > 0 {
        c.push("last_owner_dropped");
    }
    if f.into_shared > 0 {
        c.push("into_shared");
    }
    if f.into_shared_with_subs > 0 {
        c.push("into_shared_with_live_subscribers");
    }
    if f.upgrade_ok > 0 {
        c.push("upgrade_succeeded");
    }
    if f.upgrade_fail > 0 {
        c.push("upgrade_failed");
    }
    if f.guards_held > 0 {
        c.push("guard_held_across_operations");
    }
    if f.wouldblock > 0 {
        c.push("try_lock_refused_while_guard_held");
    }
    if f.k3_seen > 0 {
        c.push("async_counts_match_known_finding_K3");
    }
    if case.shared_waker {
        c.push("one_waker_shared_by_all_polls");
    }
    c.push(match case.flavour {
        Fl::Sync => "flavour_sync",
        Fl::Async => "flavour_async",
        Fl::Both => "flavour_both_differential",
    });
    c
}

fn lifecycle(prop: Prop) -> R {
    let snap = registry_snapshot();
    if !snap.errors.is_empty() {
        let msg = format!("value lifecycle error: {}", snap.errors.join("; "));
        return if prop == C20 { Err(Stop::Violation(msg)) } else { Err(Stop::Tainted(msg)) };
    }
    if snap.live != 0 {
        let msg = format!(
            "{} value instance(s) still alive after every observable, subscriber and guard was dropped (created {}, clones {}, drops {})",
            snap.live, snap.created, snap.clones, snap.drops
        );
        return if prop == C20 { Err(Stop::Violation(msg)) } else { Err(Stop::Tainted(msg)) };
    }
    Ok(())
}

/// One default-constructed observable of each flavour and kind stays alive for the whole process
/// (created before any case, outside every case's instance registry): every case that builds its
/// observable with `Default::default()` therefore does so while another default-constructed
/// observable exists - state shared between "unrelated" observables shows as wrong counts.
fn first_defaults() {
    use std::sync::OnceLock;
    struct Keep(
        #[allow(dead_code)] eyeball::SharedObservable<OVal>,
        #[allow(dead_code)] eyeball::SharedObservable<OVal, eyeball::AsyncLock>,
        #[allow(dead_code)] std::sync::Mutex<(eyeball::Observable<OVal>, eyeball::Observable<OVal, eyeball::AsyncLock>)>,
    );
    unsafe impl Sync for Keep {}
    unsafe impl Send for Keep {}
    static KEEP: OnceLock<Keep> = OnceLock::new();
    KEEP.get_or_init(|| Keep(Default::default(), Default::default(), std::sync::Mutex::new((Default::default(), Default::default()))));
}

pub fn run(case: &ObsCase, prop: Prop) -> R<CaseReport> {
    first_defaults();
    let (mut rep, f) = match case.flavour {
        Fl::Sync => {
            registry_reset();
            let (rep, f, _) = run_flavor::<SyncF>(case, prop)?;
            lifecycle(prop)?;
            (rep, f)
        }
        Fl::Async => {
            registry_reset();
            let mut c = case.clone();
            c.guards = false;
            let (rep, f, _) = run_flavor::<AsyncF>(&c, prop)?;
            lifecycle(prop)?;
            (rep, f)
        }
        Fl::Both => {
            let mut c = case.clone();
            c.guards = false;
            registry_reset();
            let (rep_s, _fs, ts) = run_flavor::<SyncF>(&c, prop)?;
            lifecycle(prop)?;
            registry_reset();
            let (mut rep_a, fa, ta) = run_flavor::<AsyncF>(&c, prop)?;
            lifecycle(prop)?;
            rep_a.checks += rep_s.checks + 1;
            if ts != ta {
                let at = ts.iter().zip(ta.iter()).position(|(a, b)| a != b).unwrap_or(ts.len().min(ta.len()));
                let msg = format!("flavours disagree at transcript position {at}: sync {:?}, async-lock {:?}", ts.get(at), ta.get(at));
                return if prop == C16 { Err(Stop::Violation(msg)) } else { Err(Stop::Tainted(msg)) };
            }
            (rep_a, fa)
        }
    };
    rep.excluded_known += f.k3_seen;
    rep.nontrivial = nontrivial(prop, &f);
    rep.classes = classes(&f, case);
    Ok(rep)
}

// ---------------------------------------------------------------------------------------------
// generation

#[derive(Clone, Debug)]
pub struct ObsGen {
    pub flavours: Vec<Fl>,
    pub guards_pct: u32,
    pub max_ops: usize,
    pub w_write: u32,
    pub w_handle: u32,
    pub w_sub: u32,
    pub w_poll: u32,
    pub w_guard: u32,
}

impl Default for ObsGen {
    fn default() -> Self {
        ObsGen { flavours: vec![Fl::Sync], guards_pct: 30, max_ops: 30, w_write: 10, w_handle: 6, w_sub: 8, w_poll: 10, w_guard: 3 }
    }
}

fn wr() -> impl Strategy<Value = Wr> {
    let k = || 0u8..3;
    prop_oneof![
        3 => (k(), k()).prop_map(|(a, b)| Wr::Set(a, b)),
        3 => (k(), k()).prop_map(|(a, b)| Wr::SetIfNotEq(a, b)),
        3 => (k(), k()).prop_map(|(a, b)| Wr::SetIfHashNotEq(a, b)),
        1 => Just(Wr::Take),
        2 => (0u8..3).prop_map(Wr::Update),
        2 => (0u8..3, any::<bool>()).prop_map(|(d, n)| Wr::UpdateIf(d, n)),
    ]
}

pub fn op(g: &ObsGen) -> BoxedStrategy<ObsOp> {
    let ix = || any::<u8>();
    let mut alts: Vec<(u32, BoxedStrategy<ObsOp>)> = vec![];
    alts.push((g.w_write, (ix(), wr()).prop_map(|(owner, wr)| ObsOp::Write { owner, wr }).boxed()));
    alts.push((g.w_write / 5 + 1, ix().prop_map(ObsOp::OwnerGet).boxed()));
    if g.w_handle > 0 {
        alts.push((
            g.w_handle,
            prop_oneof![
                3 => ix().prop_map(ObsOp::CloneOwner),
                4 => ix().prop_map(ObsOp::DropOwner),
                1 => ix().prop_map(ObsOp::DropOwnerUnwinding),
                2 => ix().prop_map(ObsOp::Downgrade),
                3 => ix().prop_map(ObsOp::Upgrade),
                1 => ix().prop_map(ObsOp::CloneWeak),
                1 => ix().prop_map(ObsOp::DropWeak),
                2 => Just(ObsOp::IntoShared),
                1 => ix().prop_map(ObsOp::CloneFromOther),
                1 => ix().prop_map(ObsOp::WeakCloneFromOther),
            ]
            .boxed(),
        ));
    }
    alts.push((
        g.w_sub,
        prop_oneof![
            3 => ix().prop_map(ObsOp::Subscribe),
            2 => ix().prop_map(ObsOp::SubscribeReset),
            2 => ix().prop_map(ObsOp::SubClone),
            1 => ix().prop_map(ObsOp::SubCloneReset),
            1 => (ix(), ix()).prop_map(|(dst, src)| ObsOp::SubCloneFrom { dst, src }),
            1 => ix().prop_map(ObsOp::ForeignSubCloneFrom),
            1 => (ix(), ix()).prop_map(|(a, b)| ObsOp::SubSwap(a, b)),
            1 => ix().prop_map(ObsOp::SubReset),
            2 => ix().prop_map(ObsOp::SubGet),
            1 => (ix(), any::<bool>()).prop_map(|(sub, hold)| ObsOp::SubRead { sub, hold }),
            2 => ix().prop_map(ObsOp::NextNow),
            1 => (ix(), any::<bool>()).prop_map(|(sub, hold)| ObsOp::NextRefNow { sub, hold }),
            1 => ix().prop_map(ObsOp::DropSub),
        ]
        .boxed(),
    ));
    alts.push((
        g.w_poll,
        prop_oneof![
            4 => (ix(), prop_oneof![Just(Via::Stream), Just(Via::Next), Just(Via::NextRef)]).prop_map(|(sub, via)| ObsOp::Poll { sub, via }),
            1 => Just(ObsOp::PollAll),
            1 => (0u8..6).prop_map(ObsOp::PollBurst),
        ]
        .boxed(),
    ));
    if g.w_guard > 0 {
        alts.push((
            g.w_guard,
            prop_oneof![
                2 => (ix(), any::<bool>()).prop_map(|(owner, hold)| ObsOp::Read { owner, hold }),
                2 => ix().prop_map(|owner| ObsOp::WriteLock { owner }),
                1 => (ix(), any::<bool>()).prop_map(|(owner, hold)| ObsOp::TryRead { owner, hold }),
                1 => (ix(), any::<bool>()).prop_map(|(owner, hold)| ObsOp::TryWrite { owner, hold }),
                3 => (ix(), wr()).prop_map(|(guard, wr)| ObsOp::GuardWrite { guard, wr }),
                3 => ix().prop_map(ObsOp::DropGuard),
            ]
            .boxed(),
        ));
    }
    proptest::strategy::Union::new_weighted(alts).boxed()
}

pub fn case(g: &ObsGen) -> BoxedStrategy<ObsCase> {
    let gp = g.guards_pct;
    (proptest::sample::select(g.flavours.clone()), any::<bool>(), (0u8..3, 0u8..3), 0u32..100, proptest::collection::vec(op(g), 0..=g.max_ops))
        .prop_map(move |(flavour, start_shared, init, gd, ops)| ObsCase {
            flavour,
            start_shared,
            init,
            guards: gd < gp && flavour == Fl::Sync,
            ops,
            strict: false,
            shared_waker: gd % 3 == 0,
            start_default: gd % 7 == 1,
        })
        .boxed()
}

/// Greedy shrinking by deleting operations (for fuzz artifacts).
pub fn shrink(case: &ObsCase, prop: Prop) -> ObsCase {
    let fails = |c: &ObsCase| matches!(crate::campaign::guarded(c, &|c: &ObsCase| run(c, prop)), Err(Stop::Violation(_)));
    let mut cur = case.clone();
    if !fails(&cur) {
        return cur;
    }
    let mut progress = true;
    while progress {
        progress = false;
        let mut i = 0;
        while i < cur.ops.len() {
            let mut c = cur.clone();
            c.ops.remove(i);
            if fails(&c) {
                cur = c;
                progress = true;
            } else {
                i += 1;
            }
        }
    }
    cur
}

/// Bounded-exhaustive histories: every sequence of at most `max_len` operations from a fixed
/// alphabet (two slots per handle kind), for both starts.
pub fn enumerate(max_len: usize, flavour: Fl, handles: bool) -> impl Iterator<Item = ObsCase> + Send {
    let mut alpha: Vec<ObsOp> = vec![
        ObsOp::Write { owner: 0, wr: Wr::Set(1, 0) },
        ObsOp::Write { owner: 0, wr: Wr::SetIfNotEq(1, 0) },
        ObsOp::Write { owner: 0, wr: Wr::SetIfHashNotEq(1, 1) },
        ObsOp::Write { owner: 0, wr: Wr::Update(2) },
        ObsOp::Write { owner: 0, wr: Wr::UpdateIf(1, false) },
        ObsOp::Subscribe(0),
        ObsOp::SubscribeReset(0),
        ObsOp::Poll { sub: 0, via: Via::Stream },
        ObsOp::Poll { sub: 200, via: Via::Next },
        ObsOp::NextNow(0),
        ObsOp::SubGet(0),
        ObsOp::SubClone(0),
        ObsOp::SubReset(200),
        ObsOp::DropOwner(0),
    ];
    if handles {
        alpha.extend([
            ObsOp::CloneOwner(0),
            ObsOp::DropOwner(200),
            ObsOp::Downgrade(0),
            ObsOp::Upgrade(0),
            ObsOp::IntoShared,
            ObsOp::DropSub(0),
            ObsOp::SubCloneReset(0),
            ObsOp::DropWeak(0),
        ]);
    }
    let a = alpha.len() as u64;
    (0..=max_len).flat_map(move |len| {
        let alpha = alpha.clone();
        let total = a.pow(len as u32);
        (0..total).flat_map(move |mut n| {
            let mut ops = Vec::with_capacity(len);
            for _ in 0..len {
                ops.push(alpha[(n % a) as usize]);
                n /= a;
            }
            [false, true].into_iter().map(move |start_shared| ObsCase {
                flavour,
                start_shared,
                init: (0, 0),
                guards: false,
                ops: ops.clone(),
                strict: false,
                shared_waker: false,
                start_default: false,
            })
        })
    })
}
