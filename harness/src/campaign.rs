//! Generic generated-input campaign: proptest runners on N threads, evidence accumulation,
//! shrinking to a minimal failing case.

use std::{
    cell::{Cell, RefCell},
    collections::{BTreeMap, HashSet},
    fmt::Debug,
    sync::atomic::{AtomicBool, Ordering},
};

use proptest::{
    strategy::Strategy,
    test_runner::{Config, RngSeed, TestCaseError, TestError, TestRunner},
};
use serde::Serialize;

use crate::common::{catch, fnv, Stop};

/// What one executed case reports back for the evidence file.
#[derive(Default, Debug, Clone)]
pub struct CaseReport {
    /// Non-trivial by the property's stated rule.
    pub nontrivial: bool,
    /// Class labels this case falls in (for the histogram).
    pub classes: Vec<&'static str>,
    /// Operations substituted by the generator/interpreter to avoid a listed known finding.
    pub excluded_known: u64,
    /// Number of individual oracle comparisons made.
    pub checks: u64,
    /// executions beyond the first that this case stands for (repeated free-running rounds)
    pub executions: u64,
}

#[derive(Default)]
pub struct Acc {
    pub evaluations: u64,
    pub nontrivial_hashes: HashSet<u64>,
    pub classes: BTreeMap<String, u64>,
    pub samples: Vec<serde_json::Value>,
    pub excluded_known: u64,
    pub known_hits: BTreeMap<String, u64>,
    pub tainted: u64,
    pub oracle_checks: u64,
    pub extra_executions: u64,
    pub internal_errors: Vec<String>,
    pub tainted_samples: Vec<(String, serde_json::Value)>,
}

impl Acc {
    pub fn merge(&mut self, o: Acc) {
        self.evaluations += o.evaluations;
        self.nontrivial_hashes.extend(o.nontrivial_hashes);
        for (k, v) in o.classes {
            *self.classes.entry(k).or_default() += v;
        }
        for s in o.samples {
            if self.samples.len() < 5 {
                self.samples.push(s);
            }
        }
        self.excluded_known += o.excluded_known;
        for (k, v) in o.known_hits {
            *self.known_hits.entry(k).or_default() += v;
        }
        self.tainted += o.tainted;
        self.oracle_checks += o.oracle_checks;
        self.extra_executions += o.extra_executions;
        self.internal_errors.extend(o.internal_errors);
        for t in o.tainted_samples {
            if self.tainted_samples.len() < 5 {
                self.tainted_samples.push(t);
            }
        }
    }

    /// Record one executed case.
    pub fn record<C: Serialize>(&mut self, case: &C, res: &Result<CaseReport, Stop>) {
        self.evaluations += 1;
        match res {
            Ok(rep) => {
                self.excluded_known += rep.excluded_known;
                self.oracle_checks += rep.checks;
                self.extra_executions += rep.executions;
                // a class counts cases, not occurrences within a case
                let mut seen: Vec<&str> = Vec::new();
                for c in &rep.classes {
                    if seen.contains(c) {
                        continue;
                    }
                    seen.push(c);
                    *self.classes.entry((*c).to_string()).or_default() += 1;
                }
                if rep.nontrivial {
                    let js = serde_json::to_vec(case).unwrap_or_default();
                    let h = fnv(&js);
                    if self.nontrivial_hashes.insert(h) && self.samples.len() < 4 {
                        if let Ok(v) = serde_json::from_slice(&js) {
                            self.samples.push(v);
                        }
                    }
                }
            }
            Err(Stop::Known(k)) => {
                *self.known_hits.entry((*k).to_string()).or_default() += 1;
            }
            Err(Stop::Tainted(m)) => {
                self.tainted += 1;
                if self.tainted_samples.len() < 5 {
                    self.tainted_samples.push((m.clone(), serde_json::to_value(case).unwrap_or_default()));
                }
            }
            Err(Stop::Internal(m)) => {
                if self.internal_errors.len() < 5 {
                    self.internal_errors.push(m.clone());
                }
            }
            Err(Stop::Violation(_)) => {}
        }
    }
}

pub struct Failure<C> {
    pub case: C,
    pub message: String,
}

pub struct CampaignResult<C> {
    pub acc: Acc,
    pub failure: Option<Failure<C>>,
}

/// Run a case under catch_unwind, turning panics into verdicts.
/// `expect_panics`: the engine handles in-contract panics itself; anything that escapes is
/// either a harness bug (location in harness sources) or a library panic (violation).
pub fn guarded<C>(case: &C, run: &(impl Fn(&C) -> Result<CaseReport, Stop> + ?Sized)) -> Result<CaseReport, Stop> {
    match catch(|| run(case)) {
        Ok(r) => r,
        Err(c) => {
            if c.in_harness() {
                Err(Stop::Internal(format!("harness panic at {}: {}", c.loc, c.msg)))
            } else {
                Err(Stop::Violation(format!("library panicked at {}: {}", c.loc, c.msg)))
            }
        }
    }
}

/// Run `cases` generated cases split over `threads` runners.
pub fn campaign<C, S>(
    make_strategy: &(dyn Fn() -> S + Sync),
    run: &(dyn Fn(&C) -> Result<CaseReport, Stop> + Sync),
    cases: u64,
    threads: usize,
    seed: u64,
) -> CampaignResult<C>
where
    C: Serialize + Debug + Clone + Send + 'static,
    S: Strategy<Value = C>,
{
    let threads = threads.max(1);
    let per = (cases + threads as u64 - 1) / threads as u64;
    let stop_all = AtomicBool::new(false);
    let results: Vec<(Acc, Option<Failure<C>>)> = std::thread::scope(|sc| {
        let mut hs = Vec::new();
        for t in 0..threads {
            let stop_all = &stop_all;
            hs.push(sc.spawn(move || {
                let acc = RefCell::new(Acc::default());
                let failing = Cell::new(false);
                let cfg = Config {
                    cases: per.min(u32::MAX as u64) as u32,
                    failure_persistence: None,
                    rng_seed: RngSeed::Fixed(seed.wrapping_mul(0x9E3779B97F4A7C15).wrapping_add(t as u64 * 7919 + 1)),
                    max_shrink_iters: 20_000,
                    max_global_rejects: 1,
                    ..Config::default()
                };
                let mut runner = TestRunner::new(cfg);
                let strat = make_strategy();
                let res = runner.run(&strat, |case| {
                    if !failing.get() && stop_all.load(Ordering::Relaxed) {
                        // another thread found a failure: finish quickly
                        return Ok(());
                    }
                    let r = guarded(&case, run);
                    if !failing.get() {
                        acc.borrow_mut().record(&case, &r);
                    }
                    match r {
                        Err(Stop::Violation(m)) => {
                            failing.set(true);
                            stop_all.store(true, Ordering::Relaxed);
                            Err(TestCaseError::fail(m))
                        }
                        _ => Ok(()),
                    }
                });
                let failure = match res {
                    Ok(()) => None,
                    Err(TestError::Fail(reason, case)) => {
                        Some(Failure { case, message: reason.message().to_string() })
                    }
                    Err(TestError::Abort(reason)) => {
                        acc.borrow_mut().internal_errors.push(format!("proptest aborted: {}", reason.message()));
                        None
                    }
                };
                (acc.into_inner(), failure)
            }));
        }
        hs.into_iter().map(|h| h.join().expect("runner thread")).collect()
    });
    let mut acc = Acc::default();
    let mut failure = None;
    for (a, f) in results {
        acc.merge(a);
        if failure.is_none() {
            failure = f;
        }
    }
    CampaignResult { acc, failure }
}

/// Run an explicit list/iterator of cases (enumerators, replays) in parallel chunks.
pub fn run_enumerated<C>(
    cases: impl Iterator<Item = C> + Send,
    run: &(dyn Fn(&C) -> Result<CaseReport, Stop> + Sync),
    threads: usize,
) -> CampaignResult<C>
where
    C: Serialize + Debug + Clone + Send + 'static,
{
    let threads = threads.max(1);
    let it = std::sync::Mutex::new(cases);
    let stop_all = AtomicBool::new(false);
    let results: Vec<(Acc, Option<Failure<C>>)> = std::thread::scope(|sc| {
        let mut hs = Vec::new();
        for _ in 0..threads {
            let it = &it;
            let stop_all = &stop_all;
            hs.push(sc.spawn(move || {
                let mut acc = Acc::default();
                let mut failure = None;
                loop {
                    if stop_all.load(Ordering::Relaxed) {
                        break;
                    }
                    let chunk: Vec<C> = {
                        let mut g = it.lock().unwrap();
                        let mut v = Vec::with_capacity(256);
                        for _ in 0..256 {
                            match g.next() {
                                Some(c) => v.push(c),
                                None => break,
                            }
                        }
                        v
                    };
                    if chunk.is_empty() {
                        break;
                    }
                    for case in chunk {
                        let r = guarded(&case, run);
                        acc.record(&case, &r);
                        if let Err(Stop::Violation(m)) = r {
                            failure = Some(Failure { case, message: m });
                            stop_all.store(true, Ordering::Relaxed);
                            break;
                        }
                    }
                    if failure.is_some() {
                        break;
                    }
                }
                (acc, failure)
            }));
        }
        hs.into_iter().map(|h| h.join().expect("enum thread")).collect()
    });
    let mut acc = Acc::default();
    let mut failure = None;
    for (a, f) in results {
        acc.merge(a);
        if failure.is_none() {
            failure = f;
        }
    }
    CampaignResult { acc, failure }
}
