//! Engine C: real threads on clones of one `SharedObservable<u64>` and its subscribers.
//!
//! Two schedulers: free-running (barrier start + generated spin noise) and directed (the
//! `__verif_hooks` pause points park each thread on a gate; a director releases one paused thread
//! at a time; the choice sequence is the schedule). Verdicts come only from the recorded history:
//! Wing-Gong linearizability against a sequential register, guard-interval exclusion, "ready
//! implies flagged" for every subscriber, and end-of-stream <=> no owner survived.

use std::{
    cell::Cell,
    collections::HashSet,
    pin::Pin,
    sync::{
        atomic::{AtomicU64, Ordering},
        Arc, Barrier, Condvar, Mutex, OnceLock,
    },
    task::{Context, Poll},
    time::{Duration, Instant},
};

use eyeball::{SharedObservable, Subscriber, WeakObservable};
use futures_core::Stream;
use proptest::prelude::*;
use serde::{Deserialize, Serialize};

use crate::{
    campaign::CaseReport,
    common::{flag_waker, Flag, Prop, Stop, R},
};
use Prop::*;

#[derive(Clone, Copy, Debug, Serialize, Deserialize, PartialEq, Eq, Hash)]
pub enum TOp {
    Set,
    /// `dup`: write the value this thread wrote last (may or may not differ from the current one)
    SetIfNotEq { dup: bool },
    Update(u8),
    Get,
    /// hold a read guard while spinning; the value must not change inside
    ReadSec(u8),
    /// hold a write guard: read, spin, set
    WriteSec(u8),
    /// hold a write guard and only read through it
    WriteSecRo(u8),
    /// hold a write guard: read, set, spin, then `set_if_not_eq` with the value just stored (must
    /// change nothing and return None) -- one guard session, one notification owed
    WriteSecSetNoop(u8),
    NextNow,
    Poll,
    /// poll a fresh `next_ref()` future once (the guard, if any, is read and dropped)
    PollNextRef,
    /// poll up to n times, waiting (briefly) to be woken after each Pending (free-running only)
    WaitNext(u8),
    DropOwner,
    Upgrade,
    Spin(u8),
    /// create this thread's subscriber now (cases with `late_subs`), then read its value
    Subscribe,
    /// write one fixed value that every thread may write (equal values from different threads)
    SetConst,
    /// `set_if_hash_not_eq` of that fixed value (for u64 the hashes differ exactly when the values do)
    SetConstIfHashNotEq,
    /// clone an owner and drop the clone again, 4 * (n + 1) times (handle counts move while other
    /// threads write)
    CloneChurn(u8),
}

#[derive(Clone, Debug, Serialize, Deserialize, PartialEq, Eq, Hash)]
pub struct ThrProg {
    pub owners: u8,
    pub ops: Vec<TOp>,
}

#[derive(Clone, Debug, Serialize, Deserialize)]
pub struct ThrCase {
    pub threads: Vec<ThrProg>,
    /// the main thread keeps one owner until all threads have finished
    pub main_owner: bool,
    /// Some = directed: index of the paused thread to release at each step
    pub schedule: Option<Vec<u8>>,
    /// threads start without a subscriber and create it with `TOp::Subscribe`
    #[serde(default)]
    pub late_subs: bool,
    /// a recorded history of a free-running execution: replay re-judges it instead of executing
    #[serde(default)]
    pub recorded: Option<Box<RunOut>>,
}

#[derive(Clone, Debug, PartialEq, Serialize, Deserialize)]
pub enum PR {
    Pending,
    Item(u64),
    End,
}

#[derive(Clone, Debug, Serialize, Deserialize)]
pub enum Kind {
    Set { v: u64, prev: u64 },
    SetIfNotEq { v: u64, prev: Option<u64> },
    Update { k: u64 },
    Get { v: u64 },
    ReadSec { v1: u64, v2: u64, acq: u64, rel: u64 },
    WriteSec {
        seen: u64,
        new: u64,
        prev: u64,
        acq: u64,
        rel: u64,
        /// Some(r): `set_if_not_eq(new)` was called through the same guard after the set and returned r
        #[serde(default)]
        noop: Option<Option<u64>>,
    },
    NextNow { sub: usize, v: u64 },
    Poll {
        sub: usize,
        res: PR,
        prev_pending_woken: Option<bool>,
        /// the thread had waited (in vain) for the previous Pending poll's waker before this poll
        #[serde(default)]
        waited: bool,
    },
    Drop,
    Upgrade { ok: bool },
    /// subscribe() followed by get() on the new subscriber
    Subscribe { sub: usize, v: u64 },
}

#[derive(Clone, Debug, Serialize, Deserialize)]
pub struct Rec {
    pub thread: usize,
    /// recorded by the main thread after all workers were joined
    pub main: bool,
    pub kind: Kind,
    pub inv: u64,
    pub res: u64,
}

// ---------------------------------------------------------------------------------------------
// director

#[derive(Clone, Copy, PartialEq, Debug)]
enum TS {
    Running,
    Paused(&'static str),
    Finished,
}

struct DirState {
    threads: Vec<TS>,
    progress: u64,
}

struct Dir {
    m: Mutex<DirState>,
    cv: Condvar,
}

static DIR: OnceLock<Dir> = OnceLock::new();
/// directed runs use process-global state: one at a time
static DIRECTED_LOCK: Mutex<()> = Mutex::new(());

thread_local! {
    static TID: Cell<Option<usize>> = const { Cell::new(None) };
}

fn dir() -> &'static Dir {
    DIR.get_or_init(|| Dir { m: Mutex::new(DirState { threads: vec![], progress: 0 }), cv: Condvar::new() })
}

fn hook(point: &'static str) {
    let Some(tid) = TID.with(|t| t.get()) else { return };
    let d = dir();
    let mut g = d.m.lock().unwrap_or_else(|e| e.into_inner());
    if tid >= g.threads.len() {
        return;
    }
    g.threads[tid] = TS::Paused(point);
    g.progress += 1;
    d.cv.notify_all();
    while matches!(g.threads[tid], TS::Paused(_)) {
        g = d.cv.wait(g).unwrap_or_else(|e| e.into_inner());
    }
}

fn mark_finished(tid: usize) {
    let d = dir();
    let mut g = d.m.lock().unwrap_or_else(|e| e.into_inner());
    if tid < g.threads.len() {
        g.threads[tid] = TS::Finished;
        g.progress += 1;
    }
    d.cv.notify_all();
}

const GRACE: Duration = Duration::from_millis(15);
const HANG: Duration = Duration::from_secs(90);

/// Drive the paused threads according to `schedule`; returns (trace, widths) or Err on a hang.
fn direct(n: usize, schedule: &[u8]) -> Result<(Vec<String>, Vec<usize>), String> {
    let d = dir();
    let mut trace = vec![];
    let mut widths = vec![];
    let mut step = 0usize;
    let start = Instant::now();
    loop {
        let mut g = d.m.lock().unwrap_or_else(|e| e.into_inner());
        // wait until every thread is paused or finished, or nothing moved for GRACE
        loop {
            let all_settled = g.threads.iter().take(n).all(|t| !matches!(t, TS::Running));
            if all_settled {
                break;
            }
            let before = g.progress;
            let (g2, to) = d.cv.wait_timeout(g, GRACE).unwrap_or_else(|e| e.into_inner());
            g = g2;
            if to.timed_out() && g.progress == before {
                break; // running threads are presumed blocked on a lock
            }
            if start.elapsed() > HANG {
                return Err(format!("directed schedule did not finish within {:?}; trace {:?}", HANG, trace));
            }
        }
        if g.threads.iter().take(n).all(|t| matches!(t, TS::Finished)) {
            return Ok((trace, widths));
        }
        let paused: Vec<usize> = (0..n).filter(|i| matches!(g.threads[*i], TS::Paused(_))).collect();
        if paused.is_empty() {
            // nobody to release: threads are running slowly or deadlocked
            if start.elapsed() > HANG {
                return Err(format!("threads neither paused nor finished for {:?} (deadlock?); trace {:?}", HANG, trace));
            }
            drop(g);
            std::thread::sleep(Duration::from_millis(1));
            continue;
        }
        let c = schedule.get(step).copied().unwrap_or(0) as usize % paused.len();
        widths.push(paused.len());
        let t = paused[c];
        if let TS::Paused(p) = g.threads[t] {
            trace.push(format!("T{t}@{p}"));
        }
        g.threads[t] = TS::Running;
        g.progress += 1;
        step += 1;
        d.cv.notify_all();
    }
}

// ---------------------------------------------------------------------------------------------
// running a case

struct ThreadCtx {
    tid: usize,
    owners: Vec<SharedObservable<u64>>,
    upgraded: Vec<SharedObservable<u64>>,
    weak: WeakObservable<u64>,
    sub: Option<Subscriber<u64>>,
    /// the last value this subscriber is known to have seen (for "ends on the final value")
    last_seen: u64,
    last_pending: Option<Arc<Flag>>,
    last_written: u64,
    main_phase: bool,
    /// main phase only: every subscriber is polled with this one waker (one task driving them all)
    main_flag: Option<Arc<Flag>>,
    waited: bool,
    recs: Vec<Rec>,
}

/// Every other program (by its total number of operations) has its main-phase polls made with one
/// shared waker.
fn one_waker(case: &ThrCase) -> bool {
    case.threads.iter().map(|t| t.ops.len()).sum::<usize>() % 2 == 1
}

/// the value written by `SetConst` / `SetConstIfHashNotEq` (never produced by the per-thread unique values)
pub const CONST_VALUE: u64 = 424_242;

fn spin(n: u8) {
    for _ in 0..(n as u32 * 40) {
        std::hint::spin_loop();
    }
    if n % 7 == 3 {
        std::thread::yield_now();
    }
}

impl ThreadCtx {
    fn owner(&self) -> Option<&SharedObservable<u64>> {
        self.owners.first().or(self.upgraded.first())
    }
    fn poll(&mut self, clock: &AtomicU64) -> PR {
        self.poll_via(clock, false)
    }
    fn poll_via(&mut self, clock: &AtomicU64, next_ref: bool) -> PR {
        let Some(sub) = self.sub.as_mut() else { return PR::Pending };
        let flag = self.main_flag.clone().unwrap_or_else(Flag::new);
        let w = flag_waker(&flag);
        let mut cx = Context::from_waker(&w);
        let inv = clock.fetch_add(1, Ordering::SeqCst);
        let r: Poll<Option<u64>> = if next_ref {
            let fut = std::pin::pin!(sub.next_ref());
            std::future::Future::poll(fut, &mut cx).map(|o| o.map(|g| *g))
        } else {
            Pin::new(sub).poll_next(&mut cx)
        };
        let prev = self.last_pending.take();
        let res = match r {
            Poll::Pending => PR::Pending,
            Poll::Ready(None) => PR::End,
            Poll::Ready(Some(v)) => {
                self.last_seen = v;
                PR::Item(v)
            }
        };
        // sampled after the poll returned: sound, a correct implementation woke it before
        let prev_woken = if res != PR::Pending { prev.as_ref().map(|f| f.woken()) } else { None };
        if res == PR::Pending {
            self.last_pending = Some(flag);
        }
        let rt = clock.fetch_add(1, Ordering::SeqCst);
        self.recs.push(Rec { thread: self.tid, main: self.main_phase, kind: Kind::Poll { sub: self.tid, res: res.clone(), prev_pending_woken: prev_woken, waited: std::mem::take(&mut self.waited) }, inv, res: rt });
        res
    }
    fn exec(&mut self, idx: usize, op: TOp, clock: &AtomicU64, free: bool) {
        let t = || clock.fetch_add(1, Ordering::SeqCst);
        let unique = (self.tid as u64 + 1) * 1000 + idx as u64 + 1;
        match op {
            TOp::Spin(n) => spin(n),
            TOp::Set => {
                let Some(o) = self.owner() else { return };
                let inv = t();
                let prev = o.set(unique);
                let res = t();
                self.last_written = unique;
                self.recs.push(Rec { thread: self.tid, main: self.main_phase, kind: Kind::Set { v: unique, prev }, inv, res });
            }
            TOp::SetIfNotEq { dup } => {
                let Some(o) = self.owner() else { return };
                let v = if dup { self.last_written } else { unique };
                let inv = t();
                let prev = o.set_if_not_eq(v);
                let res = t();
                self.last_written = v;
                self.recs.push(Rec { thread: self.tid, main: self.main_phase, kind: Kind::SetIfNotEq { v, prev }, inv, res });
            }
            TOp::SetConst => {
                let Some(o) = self.owner() else { return };
                let inv = t();
                let prev = o.set(CONST_VALUE);
                let res = t();
                self.last_written = CONST_VALUE;
                self.recs.push(Rec { thread: self.tid, main: self.main_phase, kind: Kind::Set { v: CONST_VALUE, prev }, inv, res });
            }
            TOp::SetConstIfHashNotEq => {
                let Some(o) = self.owner() else { return };
                let inv = t();
                let prev = o.set_if_hash_not_eq(CONST_VALUE);
                let res = t();
                self.last_written = CONST_VALUE;
                self.recs.push(Rec { thread: self.tid, main: self.main_phase, kind: Kind::SetIfNotEq { v: CONST_VALUE, prev }, inv, res });
            }
            TOp::Update(k) => {
                let Some(o) = self.owner() else { return };
                let sp = k * 5;
                let k = k as u64 * 1_000_000;
                let inv = t();
                // a read-modify-write with user code in between: the closure runs under the lock
                o.update(|v| {
                    let x = *v;
                    spin(sp);
                    *v = x + k;
                });
                let res = t();
                self.recs.push(Rec { thread: self.tid, main: self.main_phase, kind: Kind::Update { k }, inv, res });
            }
            TOp::Get => {
                let Some(o) = self.owner() else { return };
                let inv = t();
                let v = o.get();
                let res = t();
                self.recs.push(Rec { thread: self.tid, main: self.main_phase, kind: Kind::Get { v }, inv, res });
            }
            TOp::ReadSec(n) => {
                let Some(o) = self.owner() else { return };
                let inv = t();
                let g = o.read();
                let acq = t();
                let v1 = *g;
                spin(n);
                let v2 = *g;
                let rel = t();
                drop(g);
                let res = t();
                self.recs.push(Rec { thread: self.tid, main: self.main_phase, kind: Kind::ReadSec { v1, v2, acq, rel }, inv, res });
            }
            TOp::WriteSec(n) => {
                let Some(o) = self.owner() else { return };
                let inv = t();
                let mut g = o.write();
                let acq = t();
                let seen = *g;
                spin(n);
                let prev = eyeball::ObservableWriteGuard::set(&mut g, unique);
                let rel = t();
                drop(g);
                let res = t();
                self.last_written = unique;
                self.recs.push(Rec { thread: self.tid, main: self.main_phase, kind: Kind::WriteSec { seen, new: unique, prev, acq, rel, noop: None }, inv, res });
            }
            TOp::WriteSecSetNoop(n) => {
                let Some(o) = self.owner() else { return };
                let inv = t();
                let mut g = o.write();
                let acq = t();
                let seen = *g;
                let prev = eyeball::ObservableWriteGuard::set(&mut g, unique);
                spin(n);
                let noop = eyeball::ObservableWriteGuard::set_if_not_eq(&mut g, unique);
                let rel = t();
                drop(g);
                let res = t();
                self.last_written = unique;
                self.recs.push(Rec { thread: self.tid, main: self.main_phase, kind: Kind::WriteSec { seen, new: unique, prev, acq, rel, noop: Some(noop) }, inv, res });
            }
            TOp::WriteSecRo(n) => {
                let Some(o) = self.owner() else { return };
                let inv = t();
                let g = o.write();
                let acq = t();
                let v1 = *g;
                spin(n);
                let v2 = *g;
                let rel = t();
                drop(g);
                let res = t();
                // judged like a read section (nothing else may happen inside either)
                self.recs.push(Rec { thread: self.tid, main: self.main_phase, kind: Kind::ReadSec { v1, v2, acq, rel }, inv, res });
            }
            TOp::NextNow => {
                let Some(sub) = self.sub.as_mut() else { return };
                let inv = t();
                let v = sub.next_now();
                let res = t();
                self.last_seen = v;
                // next_now makes a later readiness independent of earlier wakers
                self.last_pending = None;
                self.recs.push(Rec { thread: self.tid, main: self.main_phase, kind: Kind::NextNow { sub: self.tid, v }, inv, res });
            }
            TOp::Poll => {
                self.poll(clock);
            }
            TOp::PollNextRef => {
                self.poll_via(clock, true);
            }
            TOp::WaitNext(n) => {
                if !free {
                    self.poll(clock);
                    return;
                }
                for _ in 0..n.max(1) {
                    match self.poll(clock) {
                        PR::End => break,
                        PR::Item(_) => {}
                        PR::Pending => {
                            let Some(f) = self.last_pending.clone() else { break };
                            let dl = Instant::now() + Duration::from_micros(300);
                            while !f.woken() && Instant::now() < dl {
                                std::hint::spin_loop();
                            }
                            self.waited = !f.woken();
                        }
                    }
                }
            }
            TOp::DropOwner => {
                let o = if !self.owners.is_empty() {
                    Some(self.owners.remove(0))
                } else if !self.upgraded.is_empty() {
                    Some(self.upgraded.remove(0))
                } else {
                    None
                };
                let Some(o) = o else { return };
                let inv = t();
                drop(o);
                let res = t();
                self.recs.push(Rec { thread: self.tid, main: self.main_phase, kind: Kind::Drop, inv, res });
            }
            TOp::Subscribe => {
                if self.sub.is_some() {
                    return;
                }
                let Some(o) = self.owner() else { return };
                let inv = t();
                let sub = o.subscribe();
                let v = sub.get();
                let res = t();
                self.sub = Some(sub);
                self.last_seen = v;
                self.recs.push(Rec { thread: self.tid, main: self.main_phase, kind: Kind::Subscribe { sub: self.tid, v }, inv, res });
            }
            TOp::CloneChurn(n) => {
                let Some(o) = self.owner() else { return };
                for _ in 0..4 * (n as usize + 1) {
                    let c = o.clone();
                    std::hint::black_box(&c);
                    drop(c);
                }
            }
            TOp::Upgrade => {
                let inv = t();
                let r = self.weak.upgrade();
                let res = t();
                let ok = r.is_some();
                if let Some(o) = r {
                    self.upgraded.push(o);
                }
                self.recs.push(Rec { thread: self.tid, main: self.main_phase, kind: Kind::Upgrade { ok }, inv, res });
            }
        }
    }
}

#[derive(Clone, Debug, Serialize, Deserialize)]
pub struct RunOut {
    /// per subscriber (thread): the last value it had seen when the workers were joined (None: no subscriber)
    #[serde(default)]
    pub last_seen: Vec<Option<u64>>,
    pub recs: Vec<Rec>,
    pub trace: Vec<String>,
    pub widths: Vec<usize>,
    pub init: u64,
    /// per subscriber: results of the main thread's final polls (before / after dropping the rest)
    pub final_polls: Vec<(usize, PR, Option<bool>, PR, Option<bool>)>,
    pub owners_alive_after_join: usize,
    pub final_value: u64,
    /// after the join, while handles are still alive: (observable_count, subscriber_count,
    /// strong_count, weak_count) as reported, and (owners, subscribers, weak references) alive
    #[serde(default)]
    pub counts: Option<((usize, usize, usize, usize), (usize, usize, usize))>,
}

pub fn execute(case: &ThrCase) -> Result<RunOut, String> {
    let n = case.threads.len();
    let directed = case.schedule.is_some();
    let _guard = if directed { Some(DIRECTED_LOCK.lock().unwrap_or_else(|e| e.into_inner())) } else { None };
    let init = INIT;
    let clock = AtomicU64::new(1);
    let (mut ctxs, main_owner) = make_ctxs(case);
    // if nobody holds an owner the observable is already closed; still a valid (trivial) case
    if directed {
        let d = dir();
        let mut g = d.m.lock().unwrap_or_else(|e| e.into_inner());
        g.threads = vec![TS::Running; n];
        g.progress = 0;
        drop(g);
        eyeball::verif::set_pause_hook(Some(hook));
    }
    let barrier = Barrier::new(n);
    let panics: Mutex<Vec<String>> = Mutex::new(vec![]);
    let mut out: Result<(Vec<String>, Vec<usize>), String> = Ok((vec![], vec![]));
    std::thread::scope(|sc| {
        let mut hs = vec![];
        for (tid, ctx) in ctxs.iter_mut().enumerate() {
            let prog = &case.threads[tid];
            let clock = &clock;
            let barrier = &barrier;
            let panics = &panics;
            hs.push(sc.spawn(move || {
                if directed {
                    TID.with(|t| t.set(Some(tid)));
                } else {
                    barrier.wait();
                }
                let r = crate::common::catch(|| {
                    for (i, op) in prog.ops.iter().enumerate() {
                        ctx.exec(i, *op, clock, !directed);
                    }
                });
                if let Err(c) = r {
                    panics.lock().unwrap().push(format!("thread {tid} panicked at {}: {}", c.loc, c.msg));
                }
                if directed {
                    TID.with(|t| t.set(None));
                    mark_finished(tid);
                }
            }));
        }
        if directed {
            out = direct(n, case.schedule.as_deref().unwrap_or(&[]));
            if out.is_err() {
                // release everything so the scope can end
                let d = dir();
                let mut g = d.m.lock().unwrap_or_else(|e| e.into_inner());
                for t in g.threads.iter_mut() {
                    if matches!(t, TS::Paused(_)) {
                        *t = TS::Running;
                    }
                }
                g.threads.clear();
                d.cv.notify_all();
            }
        }
        for h in hs {
            let _ = h.join();
        }
    });
    if directed {
        eyeball::verif::set_pause_hook(None);
    }
    let (trace, widths) = out?;
    let panics = panics.into_inner().unwrap();
    if !panics.is_empty() {
        return Err(format!("PANIC {} (schedule {:?})", panics.join("; "), trace));
    }
    Ok(finish(ctxs, main_owner, &clock, init, trace, widths, one_waker(case)))
}

const INIT: u64 = 7;

fn make_ctxs(case: &ThrCase) -> (Vec<ThreadCtx>, Option<SharedObservable<u64>>) {
    let init = INIT;
    let root = SharedObservable::new(init);
    let ctxs: Vec<ThreadCtx> = (0..case.threads.len())
        .map(|tid| ThreadCtx {
            tid,
            owners: (0..case.threads[tid].owners.min(2)).map(|_| root.clone()).collect(),
            upgraded: vec![],
            weak: root.downgrade(),
            sub: if case.late_subs { None } else { Some(root.subscribe()) },
            last_seen: init,
            last_pending: None,
            last_written: init,
            main_phase: false,
            main_flag: None,
            waited: false,
            recs: vec![],
        })
        .collect();
    let main_owner = if case.main_owner { Some(root) } else { drop(root); None };
    (ctxs, main_owner)
}

/// After all workers are done: the main thread completes the history (final polls, final value,
/// dropping what is left) and assembles the record.
fn finish(mut ctxs: Vec<ThreadCtx>, main_owner: Option<SharedObservable<u64>>, clock: &AtomicU64, init: u64, trace: Vec<String>, widths: Vec<usize>, one_waker: bool) -> RunOut {
    let clock = clock;
    if one_waker {
        // the main thread is one task: it may poll every subscriber with the same waker (the
        // per-subscriber "woken since its Pending poll" observation is weaker in this mode, which is
        // why only every other program uses it)
        let f = Flag::new();
        for c in ctxs.iter_mut() {
            c.main_flag = Some(f.clone());
        }
    }
    // ---- after join: the main thread finishes the history
    let mut owners_alive = main_owner.is_some() as usize;
    for c in &ctxs {
        owners_alive += c.owners.len() + c.upgraded.len();
    }
    for c in ctxs.iter_mut() {
        c.main_phase = true;
    }
    let last_seen: Vec<Option<u64>> = ctxs.iter().map(|c| c.sub.as_ref().map(|_| c.last_seen)).collect();
    let mut final_polls = vec![];
    let mut first: Vec<(PR, Option<bool>)> = vec![];
    for c in ctxs.iter_mut() {
        if c.sub.is_none() {
            first.push((PR::End, None));
            continue;
        }
        let r = c.poll(clock);
        let w = match c.recs.last().map(|r| &r.kind) {
            Some(Kind::Poll { prev_pending_woken, .. }) => *prev_pending_woken,
            _ => None,
        };
        first.push((r, w));
    }
    // final value as seen by a subscriber's get (works with or without owners)
    let final_value = ctxs.iter().find_map(|c| c.sub.as_ref().map(|s| s.get())).or_else(|| main_owner.as_ref().map(|o| o.get())).unwrap_or(u64::MAX);
    // C19: at this quiescent moment the counts are exact
    let counts = {
        let subs_alive = ctxs.iter().filter(|c| c.sub.is_some()).count();
        let weaks_alive = ctxs.len();
        let any_owner = main_owner.as_ref().or_else(|| ctxs.iter().find_map(|c| c.owner()));
        any_owner.map(|o| ((o.observable_count(), o.subscriber_count(), o.strong_count(), o.weak_count()), (owners_alive, subs_alive, weaks_alive)))
    };
    // drop every remaining owner: every stream must end now
    drop(main_owner);
    for c in ctxs.iter_mut() {
        c.owners.clear();
        c.upgraded.clear();
    }
    for (i, c) in ctxs.iter_mut().enumerate() {
        if c.sub.is_none() {
            continue;
        }
        let r2 = c.poll(clock);
        let w2 = match c.recs.last().map(|r| &r.kind) {
            Some(Kind::Poll { prev_pending_woken, .. }) => *prev_pending_woken,
            _ => None,
        };
        final_polls.push((i, first[i].0.clone(), first[i].1, r2, w2));
    }
    let mut recs: Vec<Rec> = ctxs.into_iter().flat_map(|c| c.recs).collect();
    recs.sort_by_key(|r| r.inv);
    RunOut { last_seen, recs, trace, widths, init, final_polls, owners_alive_after_join: owners_alive, final_value, counts }
}

/// Free-running only: run the same program `reps` times on one set of worker threads (fresh
/// observable and handles per repetition), judging every recorded history.
pub fn run_reps(case: &ThrCase, prop: Prop, reps: u32) -> R<CaseReport> {
    if case.schedule.is_some() || case.recorded.is_some() || reps <= 1 {
        return run(case, prop);
    }
    let n = case.threads.len();
    let slots: Vec<Mutex<Option<ThreadCtx>>> = (0..n).map(|_| Mutex::new(None)).collect();
    let start = Barrier::new(n + 1);
    let end = Barrier::new(n + 1);
    let stop = std::sync::atomic::AtomicBool::new(false);
    let clock = AtomicU64::new(1);
    let panics: Mutex<Vec<String>> = Mutex::new(vec![]);
    let mut result: R<CaseReport> = Ok(CaseReport::default());
    std::thread::scope(|sc| {
        for tid in 0..n {
            let (slots, start, end, stop, clock, panics) = (&slots, &start, &end, &stop, &clock, &panics);
            let prog = &case.threads[tid];
            sc.spawn(move || loop {
                start.wait();
                if stop.load(Ordering::SeqCst) {
                    break;
                }
                let ctx = slots[tid].lock().unwrap().take().expect("ctx");
                let r = crate::common::catch(move || {
                    let mut ctx = ctx;
                    for (i, op) in prog.ops.iter().enumerate() {
                        ctx.exec(i, *op, clock, true);
                    }
                    ctx
                });
                match r {
                    Ok(ctx) => *slots[tid].lock().unwrap() = Some(ctx),
                    Err(c) => panics.lock().unwrap().push(format!("thread {tid} panicked at {}: {}", c.loc, c.msg)),
                }
                end.wait();
            });
        }
        let mut merged = CaseReport::default();
        for _ in 0..reps {
            let (ctxs, main_owner) = make_ctxs(case);
            for (i, c) in ctxs.into_iter().enumerate() {
                *slots[i].lock().unwrap() = Some(c);
            }
            start.wait();
            end.wait();
            let ps = panics.lock().unwrap().clone();
            if !ps.is_empty() {
                let in_harness = ps.iter().any(|p| p.contains("at src/"));
                let msg = format!("worker thread panicked: {}", ps.join("; "));
                result = if in_harness { Err(Stop::Internal(msg)) } else { Err(Stop::Violation(format!("library code panicked while threads used it in-contract: {msg}"))) };
                break;
            }
            let ctxs: Vec<ThreadCtx> = (0..n).map(|i| slots[i].lock().unwrap().take().expect("ctx back")).collect();
            let out = finish(ctxs, main_owner, &clock, INIT, vec![], vec![], one_waker(case));
            match judge(case, &out, prop) {
                Ok(rep) => {
                    merged.checks += rep.checks;
                    merged.nontrivial |= rep.nontrivial;
                    for c in rep.classes {
                        if !merged.classes.contains(&c) {
                            merged.classes.push(c);
                        }
                    }
                    merged.executions += 1;
                }
                Err(Stop::Violation(m)) => {
                    result = Err(Stop::Violation(save_history(case, out, prop, m)));
                    break;
                }
                Err(e) => {
                    result = Err(e);
                    break;
                }
            }
        }
        if result.is_ok() {
            result = Ok(merged);
        }
        stop.store(true, Ordering::SeqCst);
        start.wait();
    });
    result
}

fn save_history(case: &ThrCase, out: RunOut, prop: Prop, m: String) -> String {
    let mut c = case.clone();
    c.recorded = Some(Box::new(out));
    let dir = std::path::PathBuf::from(std::env::var("VERIF_DIR").unwrap_or_else(|_| "/verif".into())).join("replays").join("found");
    let _ = std::fs::create_dir_all(&dir);
    let body = serde_json::json!({"property": prop.name(), "engine": "thr", "message": m, "origin": "recorded history of a free-running execution", "case": c});
    let text = serde_json::to_string(&body).unwrap_or_default();
    let path = dir.join(format!("{}-thr-history-{:016x}.json", prop.name(), crate::common::fnv(text.as_bytes())));
    let _ = std::fs::write(&path, text);
    format!("{m} [recorded history: {}]", path.display())
}

// ---------------------------------------------------------------------------------------------
// judging a history

fn fail<T>(prop: Prop, props: &[Prop], msg: String) -> R<T> {
    if props.contains(&prop) {
        Err(Stop::Violation(msg))
    } else {
        Err(Stop::Tainted(msg))
    }
}

/// Sequential register specification step. Returns the new state if the op's recorded result is
/// what the register would have returned.
fn spec(kind: &Kind, s: u64) -> Option<u64> {
    match kind {
        Kind::Set { v, prev } => (*prev == s).then_some(*v),
        Kind::SetIfNotEq { v, prev } => {
            if s != *v {
                (*prev == Some(s)).then_some(*v)
            } else {
                prev.is_none().then_some(s)
            }
        }
        Kind::Update { k } => Some(s + k),
        Kind::Get { v } => (*v == s).then_some(s),
        Kind::ReadSec { v1, .. } => (*v1 == s).then_some(s),
        Kind::WriteSec { seen, new, prev, noop, .. } => (*seen == s && *prev == s && !matches!(noop, Some(Some(_)))).then_some(*new),
        Kind::NextNow { v, .. } => (*v == s).then_some(s),
        Kind::Subscribe { v, .. } => (*v == s).then_some(s),
        Kind::Poll { res: PR::Item(v), .. } => (*v == s).then_some(s),
        _ => Some(s),
    }
}

fn is_reg_op(k: &Kind) -> bool {
    !matches!(k, Kind::Drop | Kind::Upgrade { .. } | Kind::Poll { res: PR::Pending | PR::End, .. })
}

/// Wing-Gong search: is there a total order consistent with real time whose results match?
pub fn linearizable(ops: &[&Rec], init: u64, final_value: Option<u64>) -> bool {
    let n = ops.len();
    if n > 60 {
        return true; // never generated
    }
    let mut seen: HashSet<(u64, u64)> = HashSet::new();
    fn go(ops: &[&Rec], done: u64, s: u64, fin: Option<u64>, seen: &mut HashSet<(u64, u64)>) -> bool {
        let n = ops.len();
        if done.count_ones() as usize == n {
            return fin.map_or(true, |f| f == s);
        }
        if !seen.insert((done, s)) {
            return false;
        }
        // an op may go next if no other pending op responded before it was invoked
        let min_res = (0..n).filter(|i| done & (1 << i) == 0).map(|i| ops[i].res).min().unwrap();
        for i in 0..n {
            if done & (1 << i) != 0 || ops[i].inv > min_res {
                continue;
            }
            if let Some(s2) = spec(&ops[i].kind, s) {
                if go(ops, done | (1 << i), s2, fin, seen) {
                    return true;
                }
            }
        }
        false
    }
    go(ops, 0, init, final_value, &mut seen)
}

pub fn judge(case: &ThrCase, out: &RunOut, prop: Prop) -> R<CaseReport> {
    let mut rep = CaseReport::default();
    let sched = || format!("schedule {:?}", out.trace);
    // C02: ready implies flagged, for every subscriber, in every thread and in the final polls
    let mut other: Option<String> = None;
    for r in &out.recs {
        if let Kind::Poll { sub, res, prev_pending_woken: Some(false), waited } = &r.kind {
            // after the join this is also C04's "ends on the final value": a task suspended on that
            // waker would never have polled again
            // (a consumer that had been waiting for that waker, too)
            let props: &[Prop] = if r.main || *waited { &[C02, C04] } else { &[C02] };
            let msg = format!("subscriber {sub}: poll returned {:?} although the waker of its previous Pending poll was never woken ({})", res, sched());
            if props.contains(&prop) {
                return Err(Stop::Violation(msg));
            }
            // another property's business: remember it, but keep looking for one of ours
            if other.is_none() {
                other = Some(msg);
            }
        }
        rep.checks += 1;
    }
    if let Some(msg) = other {
        return Err(Stop::Tainted(msg));
    }
    // C19: counts at the quiescent moment after the join
    if let Some(((oc, sc, st, wc), (owners, subs, weaks))) = out.counts {
        rep.checks += 1;
        if (oc, sc, st, wc) != (owners, subs, owners + subs, weaks) {
            return fail(
                prop,
                &[C19],
                format!(
                    "after all threads were joined: observable_count {oc}, subscriber_count {sc}, strong_count {st}, weak_count {wc}; alive: {owners} handles, {subs} subscribers, {weaks} weak references ({})",
                    sched()
                ),
            );
        }
    }
    // C03: end of stream <=> no owner survived
    for (i, r1, _w1, r2, _w2) in &out.final_polls {
        rep.checks += 2;
        let ended = *r1 == PR::End;
        if out.owners_alive_after_join == 0 && !ended {
            // a subscriber that is Pending here stays suspended although the end of its stream is
            // due: C02's "never stays suspended while ... the end of its stream is available"
            let props: &[Prop] = if *r1 == PR::Pending { &[C03, C02] } else { &[C03] };
            return fail(prop, props, format!("subscriber {i}: every owner was dropped but the stream did not end (poll = {:?}; {})", r1, sched()));
        }
        if out.owners_alive_after_join > 0 && ended {
            return fail(prop, &[C03], format!("subscriber {i}: stream ended although {} owner(s) are alive ({})", out.owners_alive_after_join, sched()));
        }
        if *r2 != PR::End {
            let props: &[Prop] = if *r2 == PR::Pending { &[C03, C02] } else { &[C03] };
            return fail(prop, props, format!("subscriber {i}: stream did not end after the last owner was dropped (poll = {:?}; {})", r2, sched()));
        }
    }
    // while the main thread holds an owner (until all workers are joined), no worker can see the
    // end of a stream and every upgrade must succeed
    if case.main_owner {
        for r in out.recs.iter().filter(|r| !r.main) {
            rep.checks += 1;
            if let Kind::Upgrade { ok: false } = r.kind {
                return fail(prop, &[C03], format!("WeakObservable::upgrade failed while an owner is alive ({})", sched()));
            }
            if let Kind::Poll { res: PR::End, sub, .. } = &r.kind {
                return fail(prop, &[C03], format!("subscriber {sub}: stream ended while the main thread still holds an owner ({})", sched()));
            }
        }
    }
    // C04: after the writers have finished every subscriber ends on the final value: if its
    // first poll after the join is Pending, the last value it saw must be the final one
    if out.final_value != u64::MAX {
        for (i, r1, _w1, _r2, _w2) in &out.final_polls {
            rep.checks += 1;
            if let (PR::Pending, Some(Some(seen))) = (r1, out.last_seen.get(*i)) {
                if *seen != out.final_value {
                    return fail(
                        prop,
                        &[C04, C01],
                        format!("subscriber {i} is Pending after all writers finished, but the last value it saw is {seen} and the final value is {} (an update was lost for it; {})", out.final_value, sched()),
                    );
                }
            }
        }
    }
    // C04/C01: a value that was written exactly once is yielded by the polls of one subscriber at
    // most once (each update is observed once; next_now/get hand out values without this limit)
    {
        let mut written: std::collections::HashMap<u64, u32> = std::collections::HashMap::new();
        for r in &out.recs {
            match &r.kind {
                Kind::Set { v, .. } | Kind::WriteSec { new: v, .. } | Kind::SetIfNotEq { v, prev: Some(_) } => *written.entry(*v).or_default() += 1,
                _ => {}
            }
        }
        let has_update = out.recs.iter().any(|r| matches!(r.kind, Kind::Update { .. }));
        if !has_update {
            let mut seen: HashSet<(usize, u64)> = HashSet::new();
            for r in &out.recs {
                if let Kind::Poll { sub, res: PR::Item(v), .. } = &r.kind {
                    rep.checks += 1;
                    if written.get(v) == Some(&1) && !seen.insert((*sub, *v)) {
                        return fail(
                            prop,
                            &[C04, C01],
                            format!("subscriber {sub} was handed the value {v} by two polls although it was written only once ({})", sched()),
                        );
                    }
                }
            }
        }
    }
    // C04/C01: a subscriber obtained from subscribe() is ready only for updates made after it:
    // if every notifying write had *responded* before subscribe() was even invoked (or there is
    // none), no later poll of that subscriber may yield an item
    for srec in out.recs.iter().filter(|r| matches!(r.kind, Kind::Subscribe { .. })) {
        let Kind::Subscribe { sub, .. } = &srec.kind else { continue };
        let write_after = out.recs.iter().any(|w| {
            let is_write = matches!(w.kind, Kind::Set { .. } | Kind::Update { .. } | Kind::WriteSec { .. }) || matches!(w.kind, Kind::SetIfNotEq { prev: Some(_), .. });
            is_write && w.res > srec.inv
        });
        if !write_after {
            for p in out.recs.iter().filter(|r| r.inv > srec.res) {
                if let Kind::Poll { sub: ps, res: PR::Item(v), .. } = &p.kind {
                    if ps == sub {
                        rep.checks += 1;
                        return fail(
                            prop,
                            &[C04, C01],
                            format!("subscriber {sub} was created by subscribe() after the last update had completed, yet a later poll yielded {v} ({})", sched()),
                        );
                    }
                }
            }
        }
    }
    // C04/C01/C02 (real time): between two consecutive events of one subscriber (a poll, next_now or
    // its subscribe()), a notifying write that was invoked after the first event had returned and
    // that responded before the second was invoked is unobserved at the second: a poll there
    // cannot be Pending
    {
        let writes: Vec<(u64, u64, &Kind)> = out
            .recs
            .iter()
            .filter(|w| matches!(w.kind, Kind::Set { .. } | Kind::Update { .. } | Kind::WriteSec { .. }) || matches!(w.kind, Kind::SetIfNotEq { prev: Some(_), .. }))
            .map(|w| (w.inv, w.res, &w.kind))
            .collect();
        let mut last_event: std::collections::BTreeMap<usize, u64> = std::collections::BTreeMap::new();
        // (invocation of the previous event): subscribers that exist from the start were created at time 0
        let mut last_event_inv: std::collections::BTreeMap<usize, u64> = std::collections::BTreeMap::new();
        if !case.late_subs {
            for t in 0..case.threads.len() {
                last_event_inv.insert(t, 0);
            }
        }
        let any_drop_before = |t: u64| out.recs.iter().any(|d| matches!(d.kind, Kind::Drop) && d.inv < t);
        for r in &out.recs {
            // the converse: a poll that yields an item needs a notifying write that had not already
            // completed when the subscriber's previous event (which left it up to date) was invoked
            if let Kind::Poll { sub, res: PR::Item(v), .. } = &r.kind {
                if let Some(prev_inv) = last_event_inv.get(sub) {
                    rep.checks += 1;
                    if !writes.iter().any(|(winv, wres, _)| wres > prev_inv && *winv < r.res) {
                        let props: &[Prop] = if writes.is_empty() && any_drop_before(r.res) { &[C04, C01, C03] } else { &[C04, C01] };
                        return fail(
                            prop,
                            props,
                            format!(
                                "subscriber {sub}: poll yielded {v} although no notifying write was in progress or began between the subscriber's previous event and this poll ({})",
                                sched()
                            ),
                        );
                    }
                }
            }
            let (sub, pending) = match &r.kind {
                Kind::Poll { sub, res, .. } => (*sub, *res == PR::Pending),
                Kind::NextNow { sub, .. } => (*sub, false),
                Kind::Subscribe { sub, .. } => (*sub, false),
                _ => continue,
            };
            last_event_inv.insert(sub, r.inv);
            if pending {
                if let Some(prev_res) = last_event.get(&sub) {
                    rep.checks += 1;
                    if let Some((_, _, k)) = writes.iter().find(|(winv, wres, _)| winv > prev_res && *wres < r.inv) {
                        return fail(
                            prop,
                            &[C04, C01, C02],
                            format!(
                                "subscriber {sub}: poll returned Pending although a notifying write ({:?}) began after the subscriber's previous event had returned and completed before this poll began ({})",
                                k,
                                sched()
                            ),
                        );
                    }
                }
            }
            last_event.insert(sub, r.res);
        }
    }
    // C04: guard sections
    for r in &out.recs {
        match &r.kind {
            Kind::ReadSec { v1, v2, acq, rel } => {
                rep.checks += 1;
                if v1 != v2 {
                    return fail(prop, &[C04], format!("value changed from {v1} to {v2} while a read guard was alive ({})", sched()));
                }
                for w in &out.recs {
                    let is_write = matches!(w.kind, Kind::Set { .. } | Kind::Update { .. } | Kind::WriteSec { .. }) || matches!(w.kind, Kind::SetIfNotEq { prev: Some(_), .. });
                    if is_write && w.inv > *acq && w.res < *rel {
                        return fail(prop, &[C04], format!("a write ({:?}) began and completed while a read guard was alive ({})", w.kind, sched()));
                    }
                }
            }
            Kind::WriteSec { seen, prev, acq, rel, .. } => {
                rep.checks += 1;
                if seen != prev {
                    return fail(prop, &[C04], format!("write guard read {seen} but set() returned previous value {prev}: another write happened inside the guard ({})", sched()));
                }
                for w in &out.recs {
                    let touches = is_reg_op(&w.kind) && !std::ptr::eq(w, r);
                    if touches && w.inv > *acq && w.res < *rel {
                        return fail(prop, &[C04], format!("an operation ({:?}) began and completed while a write guard was alive ({})", w.kind, sched()));
                    }
                }
            }
            _ => {}
        }
    }
    // C04: linearizability against the sequential register, ending on the final value
    let reg: Vec<&Rec> = out.recs.iter().filter(|r| is_reg_op(&r.kind)).collect();
    rep.checks += 1;
    let fin = if out.final_value == u64::MAX { None } else { Some(out.final_value) };
    if !linearizable(&reg, out.init, fin) {
        let hist: Vec<String> = reg.iter().map(|r| format!("T{}[{}..{}] {:?}", r.thread, r.inv, r.res, r.kind)).collect();
        return fail(
            prop,
            &[C04],
            format!("history is not linearizable w.r.t. a register (initial {}, final {}): {} ({})", out.init, out.final_value, hist.join("; "), sched()),
        );
    }
    // non-triviality
    let overlapping = out.recs.iter().any(|a| out.recs.iter().any(|b| a.thread != b.thread && !a.main && !b.main && a.inv < b.res && b.inv < a.res));
    let pending_then_ready = out.recs.iter().any(|r| matches!(r.kind, Kind::Poll { prev_pending_woken: Some(_), .. }));
    let concurrent_drops = out.trace.iter().filter(|t| t.contains("shared_drop") || t.contains("upgrade")).count() >= 2
        || out.recs.iter().filter(|r| matches!(r.kind, Kind::Drop | Kind::Upgrade { .. })).count() >= 2;
    rep.nontrivial = match prop {
        C02 => pending_then_ready,
        C03 => concurrent_drops,
        _ => overlapping,
    };
    if overlapping {
        rep.classes.push("operations_of_different_threads_overlap");
    }
    if pending_then_ready {
        rep.classes.push("poll_ready_after_pending");
    }
    if concurrent_drops {
        rep.classes.push("two_or_more_drop_or_upgrade_ops");
    }
    if case.schedule.is_some() {
        rep.classes.push("directed_schedule");
    } else {
        rep.classes.push("free_running");
    }
    if out.owners_alive_after_join == 0 {
        rep.classes.push("all_owners_dropped_by_threads");
    }
    Ok(rep)
}

pub fn run(case: &ThrCase, prop: Prop) -> R<CaseReport> {
    if let Some(rec) = &case.recorded {
        return judge(case, rec, prop);
    }
    match execute(case) {
        Ok(out) => match judge(case, &out, prop) {
            Err(Stop::Violation(m)) if case.schedule.is_none() => Err(Stop::Violation(save_history(case, out, prop, m))),
            r => r,
        },
        Err(e) if e.starts_with("PANIC ") && !e.contains("at src/") => Err(Stop::Violation(format!("library code panicked while threads used it in-contract: {e}"))),
        Err(e) => Err(Stop::Internal(e)),
    }
}

/// Replay of a free-running case without a recorded history: execute it repeatedly.
pub fn run_repeated(case: &ThrCase, prop: Prop, times: u32) -> R<CaseReport> {
    if case.recorded.is_some() || case.schedule.is_some() {
        return run(case, prop);
    }
    let mut last = CaseReport::default();
    for _ in 0..times {
        last = run(case, prop)?;
    }
    Ok(last)
}

// ---------------------------------------------------------------------------------------------
// schedule enumeration (stateless DFS over director choices)

pub struct Explored {
    pub schedules: u64,
    pub failure: Option<(ThrCase, String)>,
    pub reports: Vec<CaseReport>,
    pub internal: Vec<String>,
    pub complete: bool,
}

pub fn explore(base: &ThrCase, prop: Prop, max_schedules: u64) -> Explored {
    let mut ex = Explored { schedules: 0, failure: None, reports: vec![], internal: vec![], complete: false };
    let mut prefix: Vec<u8> = vec![];
    loop {
        if ex.schedules >= max_schedules {
            return ex;
        }
        let mut case = base.clone();
        case.schedule = Some(prefix.clone());
        let out = match execute(&case) {
            Ok(o) => o,
            Err(e) => {
                if e.starts_with("PANIC ") && !e.contains("at src/") {
                    ex.failure = Some((case, format!("library code panicked while threads used it in-contract: {e}")));
                } else {
                    ex.internal.push(e);
                }
                return ex;
            }
        };
        ex.schedules += 1;
        // the choices actually taken (prefix, then zeros)
        let taken: Vec<u8> = (0..out.widths.len()).map(|i| prefix.get(i).copied().unwrap_or(0) % out.widths[i] as u8).collect();
        case.schedule = Some(taken.clone());
        match judge(&case, &out, prop) {
            Ok(rep) => ex.reports.push(rep),
            Err(Stop::Violation(m)) => {
                ex.failure = Some((case, m));
                return ex;
            }
            Err(Stop::Internal(m)) => {
                ex.internal.push(m);
                return ex;
            }
            Err(_) => {}
        }
        // next schedule: increment the last position that has an untried alternative
        let mut i = taken.len();
        loop {
            if i == 0 {
                ex.complete = true;
                return ex;
            }
            i -= 1;
            if (taken[i] as usize) + 1 < out.widths[i] {
                prefix = taken[..i].to_vec();
                prefix.push(taken[i] + 1);
                break;
            }
        }
    }
}

// ---------------------------------------------------------------------------------------------
// generation

pub fn op(directed: bool) -> BoxedStrategy<TOp> {
    if directed {
        prop_oneof![
            3 => Just(TOp::DropOwner),
            2 => Just(TOp::Upgrade),
            3 => Just(TOp::Poll),
            1 => Just(TOp::PollNextRef),
            2 => Just(TOp::Set),
            1 => Just(TOp::Get),
            1 => Just(TOp::NextNow),
        ]
        .boxed()
    } else {
        let n = || 0u8..20;
        prop_oneof![
            5 => Just(TOp::Set),
            2 => any::<bool>().prop_map(|dup| TOp::SetIfNotEq { dup }),
            3 => (1u8..4).prop_map(TOp::Update),
            3 => Just(TOp::Get),
            2 => n().prop_map(TOp::ReadSec),
            2 => n().prop_map(TOp::WriteSec),
            2 => n().prop_map(TOp::WriteSecRo),
            1 => n().prop_map(TOp::WriteSecSetNoop),
            2 => Just(TOp::NextNow),
            2 => Just(TOp::Poll),
            2 => Just(TOp::PollNextRef),
            2 => (1u8..4).prop_map(TOp::WaitNext),
            1 => Just(TOp::DropOwner),
            1 => Just(TOp::Upgrade),
            2 => n().prop_map(TOp::Spin),
            2 => Just(TOp::Subscribe),
            2 => (0u8..8).prop_map(TOp::CloneChurn),
            1 => Just(TOp::SetConst),
            1 => Just(TOp::SetConstIfHashNotEq),
        ]
        .boxed()
    }
}

pub fn case(directed: bool, max_threads: usize, max_ops: usize) -> BoxedStrategy<ThrCase> {
    let prog = (0u8..=2, proptest::collection::vec(op(directed), 1..=max_ops)).prop_map(|(owners, ops)| ThrProg { owners, ops });
    (proptest::collection::vec(prog, 2..=max_threads), any::<bool>(), proptest::collection::vec(0u8..4, 0..12), 0u8..4)
        .prop_map(move |(threads, main_owner, sched, late)| ThrCase {
            threads,
            main_owner,
            schedule: if directed { Some(sched) } else { None },
            late_subs: !directed && late < 2,
            recorded: None,
        })
        .boxed()
}
