#![no_main]
//! libFuzzer target for engine A. VERIF_PROP selects the property (its oracles and its generator
//! configuration); the semantic oracle is inside the target.
//!
//! libfuzzer-sys aborts on *every* panic, also on the in-contract ones the engine provokes and
//! catches (out-of-range calls of C17). The target therefore installs the harness's own quiet
//! hook and aborts explicitly when, and only when, the engine reports a violation.
use std::sync::{Once, OnceLock};

use evv::{campaign::guarded, checks, common::{install_quiet_panic_hook, Prop, Stop}, decode, engine_vec, vec_gen::GenCfg, vec_types::VecCase};
use libfuzzer_sys::fuzz_target;

static CFG: OnceLock<(Prop, GenCfg)> = OnceLock::new();
static HOOK: Once = Once::new();

fn cfg() -> &'static (Prop, GenCfg) {
    CFG.get_or_init(|| {
        let p = std::env::var("VERIF_PROP").ok().and_then(|s| Prop::parse(&s)).unwrap_or(Prop::C12);
        let phases = checks::vec_phases(p);
        let g = phases.into_iter().next().map(|x| x.1).unwrap_or_default();
        (p, g)
    })
}

fuzz_target!(|data: &[u8]| {
    HOOK.call_once(install_quiet_panic_hook);
    let (prop, g) = cfg();
    let case = decode::vec_case(data, g);
    let prop = *prop;
    match guarded(&case, &|c: &VecCase| engine_vec::run(c, prop)) {
        Err(Stop::Violation(m)) => {
            eprintln!("VIOLATION {}: {m}", prop.name());
            std::process::abort();
        }
        Err(Stop::Internal(m)) => {
            eprintln!("INTERNAL: {m}");
            std::process::abort();
        }
        _ => {}
    }
});
