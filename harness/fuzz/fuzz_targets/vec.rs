#![no_main]
//! libFuzzer target for engine A. VERIF_PROP selects the property (its oracles and its generator
//! configuration); the semantic oracle is inside the target, a violation panics.
use std::sync::OnceLock;

use evv::{checks, common::{Prop, Stop}, decode, engine_vec, vec_gen::GenCfg};
use libfuzzer_sys::fuzz_target;

static CFG: OnceLock<(Prop, GenCfg)> = OnceLock::new();

fn cfg() -> &'static (Prop, GenCfg) {
    CFG.get_or_init(|| {
        let p = std::env::var("VERIF_PROP").ok().and_then(|s| Prop::parse(&s)).unwrap_or(Prop::C12);
        let phases = checks::vec_phases(p);
        let g = phases.into_iter().next().map(|x| x.1).unwrap_or_default();
        (p, g)
    })
}

fuzz_target!(|data: &[u8]| {
    let (prop, g) = cfg();
    let case = decode::vec_case(data, g);
    match engine_vec::run(&case, *prop) {
        Err(Stop::Violation(m)) => panic!("VIOLATION {}: {m}", prop.name()),
        Err(Stop::Internal(m)) => panic!("INTERNAL: {m}"),
        _ => {}
    }
});
