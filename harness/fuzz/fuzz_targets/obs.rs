#![no_main]
//! libFuzzer target for engine B (observables). VERIF_PROP selects the property; C16 runs the
//! case on both flavours and compares.
use std::sync::OnceLock;

use evv::{common::{Prop, Stop}, decode, engine_obs::{self, Fl}};
use libfuzzer_sys::fuzz_target;

static P: OnceLock<Prop> = OnceLock::new();

fuzz_target!(|data: &[u8]| {
    let prop = *P.get_or_init(|| std::env::var("VERIF_PROP").ok().and_then(|s| Prop::parse(&s)).unwrap_or(Prop::C01));
    let fl = match prop {
        Prop::C16 => Fl::Both,
        Prop::C19 if data.first().map_or(false, |b| b & 0x80 != 0) => Fl::Async,
        _ => Fl::Sync,
    };
    let case = decode::obs_case(data, fl);
    match engine_obs::run(&case, prop) {
        Err(Stop::Violation(m)) => panic!("VIOLATION {}: {m}", prop.name()),
        Err(Stop::Internal(m)) => panic!("INTERNAL: {m}"),
        _ => {}
    }
});
