#![no_main]
//! libFuzzer target for engine B (observables). VERIF_PROP selects the property; C16 runs the
//! case on both flavours and compares. Panic handling as in the `vec` target.
use std::sync::{Once, OnceLock};

use evv::{campaign::guarded, common::{install_quiet_panic_hook, Prop, Stop}, decode, engine_obs::{self, Fl, ObsCase}};
use libfuzzer_sys::fuzz_target;

static P: OnceLock<Prop> = OnceLock::new();
static HOOK: Once = Once::new();

fuzz_target!(|data: &[u8]| {
    HOOK.call_once(install_quiet_panic_hook);
    let prop = *P.get_or_init(|| std::env::var("VERIF_PROP").ok().and_then(|s| Prop::parse(&s)).unwrap_or(Prop::C01));
    let fl = match prop {
        Prop::C16 => Fl::Both,
        Prop::C19 if data.first().map_or(false, |b| b & 0x80 != 0) => Fl::Async,
        _ => Fl::Sync,
    };
    let case = decode::obs_case(data, fl);
    match guarded(&case, &|c: &ObsCase| engine_obs::run(c, prop)) {
        Err(Stop::Violation(m)) => {
            eprintln!("VIOLATION {}: {m}", prop.name());
            std::process::abort();
        }
        Err(Stop::Internal(m)) => {
            eprintln!("INTERNAL: {m}");
            std::process::abort();
        }
        _ => {}
    }
});
