#!/usr/bin/env python3
"""Regenerate /verif/MANIFEST.json from the table below. CLAIMED lists the properties whose checks are built."""
import json, os, sys
HERE = os.path.dirname(os.path.dirname(os.path.abspath(__file__)))
props = [json.loads(l) for l in open(os.path.join(HERE, 'properties.jsonl'))]

# id -> (engine, technique, level text, level note, design ref)
T = {
 'C18': ('pure', 'property-based testing: bounded-exhaustive enumeration + proptest random generation against a reference implementation and the commutation law',
         'Every (vector, diff, mapping) triple up to length 4 over 3 values is enumerated (complete small scope, all index positions incl. beyond the end) and 200k (quick) / 4M (thorough) random triples with vectors up to 200 items are checked against a plain-Vec reference, the map/apply commutation law and the exact panic contract. Exploration: absence is shown only inside the enumerated scope.',
         'Trusts the harness reference semantics of the eleven diff kinds (40 lines) and catch_unwind for the panic contract.', 'DESIGN.md section 5, C18'),
}
CLAIMED = sorted(T)
checks = []
for p in props:
    pid = p['id']
    if pid not in T: continue
    eng, tech, text, note, ref = T[pid]
    checks.append({
        'property_id': pid,
        'quick_cmd': f'./check {pid} quick',
        'thorough_cmd': f'./check {pid} thorough',
        'evidence_file': f'/verif/evidence/{pid}.json',
        'replay_cmd_template': f'./check {pid} --replay {{path}}',
        'engine': eng,
        'level_claimed': {'category': 'exploration', 'text': text, 'design_ref': ref},
        'level_note': note,
        'technique': tech,
    })
na = [{'property_id': p['id'], 'reason': 'check under construction in this session (see DESIGN.md); not claimed until its engine is committed'} for p in props if p['id'] not in T]
hooks_commits = [l.strip() for l in open(os.path.join(HERE, 'tools', 'hook_commits.txt'))] if os.path.exists(os.path.join(HERE, 'tools', 'hook_commits.txt')) else []
m = {
 'version': 1,
 'setup_cmd': 'cd /verif/harness && CARGO_NET_OFFLINE=true cargo build --release --offline',
 'hooks': {
   'guard': '__verif_hooks',
   'enable': 'cargo feature `__verif_hooks` of crate `eyeball`; the harness crate (/verif/harness/Cargo.toml) depends on /repo/eyeball by path with features ["async-lock","__verif_hooks"], so every ./check build has the hooks on',
   'baseline_off_cmd': 'cd /repo && cargo test --workspace --no-fail-fast --offline',
   'source_commits': hooks_commits,
   'add_only': True,
 },
 'engines': [
   {'name': 'pure', 'path': 'harness/src/engine_pure.rs', 'serves_properties': ['C18'], 'kind_free_text': 'proptest + bounded-exhaustive enumeration of (vector, diff, mapping) triples against a plain-Vec reference'},
 ],
 'checks': checks,
 'not_applicable': na,
 'notes': 'All checks: ./check <id> quick|thorough rebuilds the harness (cargo, path dependencies on /repo) and runs harness/target/release/evv. Exit 0 held / 1 VIOLATION / 2 inconclusive. VERIF_SEED selects the proptest seed.',
}
json.dump(m, open(os.path.join(HERE, 'MANIFEST.json'), 'w'), indent=1)
print('claimed', CLAIMED)
