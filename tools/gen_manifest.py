#!/usr/bin/env python3
"""Regenerate /verif/MANIFEST.json from the table below. CLAIMED lists the properties whose checks are built."""
import json, os, sys
HERE = os.path.dirname(os.path.dirname(os.path.abspath(__file__)))
props = [json.loads(l) for l in open(os.path.join(HERE, 'properties.jsonl'))]

# id -> (engine, technique, level text, level note, design ref)
VEC_TECH = 'model-based property testing: proptest-generated operation histories (shrunk to a replay file) run against the real ObservableVector/adapters and a plain-Vec reference model, with transparent taps at every stage boundary'
VEC_EXTRA = ' Phases: random histories (quick 300k-1M), the same generator on vectors of up to 200 items (imbl multi-chunk), a bounded-exhaustive sweep where the property has one (C05-C07, C09-C11, C17), replay of the fixed defects\' reproductions; thorough adds 10-20x more cases, histories of up to 60 operations, the deeper sweep, and a libFuzzer+ASan campaign whose artifacts are decoded and re-judged (C20: also generated histories under Miri).'
VEC_NOTE = 'Trusts the harness interpreter and its plain-Vec model (harness/src/engine_vec.rs), tokio broadcast semantics only through the one-directional lag rule, and the probe subscriber (a batched stream polled after every top-level operation) for message boundaries. Listed known-finding triggers are excluded by construction and counted in the evidence.'
def V(text, ref): return ('vec', VEC_TECH, text + VEC_EXTRA, VEC_NOTE, ref)
T = {
 'C05': V('Generated histories (all eleven mutators, entry ops, traversals, transactions, mid-history subscriptions, eager and bounded-lag polling, both stream flavours) are replayed into replicas that must equal a plain-Vec model after every operation; a direct call must yield exactly one diff, documented no-ops none; every subscriber must receive the same diffs per update as every other (poll-pattern independence, batched = concatenation). 300k histories quick / 4M thorough.', 'DESIGN.md section 5, C05'),
 'C06': V('Histories with unconstrained lag over capacities 1..64 and 1-4 subscribers: an exact mirror of each receiver counts undelivered updates, so every Reset is checked against "more than capacity pending" and against the current contents; replica == contents at every Pending; every diff applicable; every batched item brings the replica up to date.', 'DESIGN.md section 5, C06'),
 'C07': V('Transaction bodies (0-6 ops incl. clear, rollback, entries, out-of-range) ended by commit or drop at arbitrary points; working-copy model compared through the handle after each op; abandoned transactions must leave contents and all subscribers untouched; commits publish one non-empty unit; batched replicas must only pass through top-level states.', 'DESIGN.md section 5, C07'),
 'C08': V('Histories ending with the vector dropped while subscribers are up to date, behind, lagged beyond capacity, mid-batch or never polled (both flavours): no end while alive, pending items then end, final replica == final contents, pending waker woken by the drop.', 'DESIGN.md section 5, C08'),
 'C09': V('Single-stage Head/Tail/Skip in all nine variants, both flavours and both limit sources, limits 0..len+3 interleaved with source operations, lag Resets, transactions and drops: view == first/last/rest of the model at every Pending (per batch for batched), every diff applicable, end-of-stream parity. 1M histories quick / 20M thorough. K1 excluded exactly and replayed.', 'DESIGN.md section 5, C09'),
 'C10': V('Single-stage Filter/FilterMap over all 256 pass/fail masks of an 8-value alphabet: view == filtered (mapped) model at every Pending, applicability, end parity.', 'DESIGN.md section 5, C10'),
 'C11': V('Single-stage Sort/SortBy/SortByKey with tie-rich comparators and identity-tagged elements: view must be an identity-exact permutation of the model and ordered; applicability; end parity. Non-benign Truncate (K2) excluded exactly and replayed.', 'DESIGN.md section 5, C11'),
 'C12': V('Chains of 2-3 stages drawn from all 14 stage kinds (dynamic ones chained through VectorObserver::into_parts), taps at every boundary, stage-local oracle view_i == view(stage_i, replica_{i-1}) from the initial values on.', 'DESIGN.md section 5, C12'),
 'C13': V('Batched pipelines of 0-3 stages with multi-op transactions: no empty batch at any boundary, after each emitted batch every stage is a correct view and the source replica is a recorded top-level state, and (fixed parameters) the flattened batched output equals an unbatched twin\'s output.', 'DESIGN.md section 5, C13'),
 'C14': V('Every stream kind with a fresh flag-waker per poll: a poll may return an item or the end after a Pending poll only if that poll\'s waker was woken (source op, limit change, drops); polls interleaved after single operations.', 'DESIGN.md section 5, C14'),
 'C15': V('Static Head/Tail alone and inside chains: the rebuilt view length is checked against the limit after every individual diff (inside batches too) and on the initial values.', 'DESIGN.md section 5, C15'),
 'C17': V('Mutators incl. explicit out-of-range calls (must panic, contents and subscribers untouched) and for_each/entries traversals with per-visit decisions keep/set/remove/set-then-remove/stop, directly and inside transactions: return values, contents and visit logs must equal a plain Vec simulation.', 'DESIGN.md section 5, C17'),
 'C20': V('The C05-C13 history generators run with an instrumented element type (fresh serial per construction and clone, registry of live/dead): double drop, use after drop or any instance alive after everything was dropped is a violation.', 'DESIGN.md section 5, C20'),
 'C18': ('pure', 'property-based testing: bounded-exhaustive enumeration + proptest random generation against a reference implementation and the commutation law',
         'Every (vector, diff, mapping) triple up to length 4 over 3 values is enumerated (complete small scope, all index positions incl. beyond the end) and 1M (quick) / 4M (thorough) random triples with vectors up to 200 items are checked against a plain-Vec reference, the map/apply commutation law and the exact panic contract. Exploration: absence is shown only inside the enumerated scope.',
         'Trusts the harness reference semantics of the eleven diff kinds (40 lines) and catch_unwind for the panic contract.', 'DESIGN.md section 5, C18'),
}

OBS_TECH = 'model-based property testing: proptest-generated call histories on Observable/SharedObservable/Subscriber (both lock flavours) against a version-free reference model with per-poll flag wakers'
OBS_NOTE = 'Trusts the harness model of the documented semantics (harness/src/engine_obs.rs) and std DefaultHasher being keyed with constants.'
THR_TECH = 'schedule exploration + randomized concurrency testing: stateless DFS over release orders at instrumented pause points (directed), proptest-generated thread programs run free on real threads; verdicts from recorded histories (Wing-Gong linearizability, guard intervals, ready-implies-flagged, end <=> no owner survived)'
THR_NOTE = 'Schedule control exists only at the six __verif_hooks pause points and at operation boundaries; between them the OS schedules. A thread not reaching a pause point within 15 ms is presumed blocked on a lock (affects which schedule is explored, never a verdict). Free-running rounds are not reproducible from the seed; the recorded history is saved and re-judged on replay.'
T.update({
 'C01': ('obs', OBS_TECH, 'Every public entry point of the sync flavour (all setters on Observable, SharedObservable clones and write guards; subscribe/reset/clone variants; get/read/next_now/next_ref_now; Stream, Next and next_ref polls) in generated histories of up to 30 calls; every return value and poll result is compared with the model after every call. 400k histories quick / 6M thorough. Also the async-lock guard engine (rules tagged C01) and 2,000 free-running thread programs x 60 executions (fresh-subscriber, duplicate-value and real-time Pending rules).', OBS_NOTE, 'DESIGN.md section 5, C01'),
 'C02': ('obs+thr', OBS_TECH + ' | ' + THR_TECH, 'Single-threaded: after every notifying update or closing drop the latest Pending waker of every pending subscriber must have fired, and no poll is ready without it. Threads: all release orders of poller/writer/dropper programs at the poll_update/close pause points, generated directed programs, and free-running rounds, all judged by "ready implies flagged".', THR_NOTE, 'DESIGN.md section 5, C02'),
 'C03': ('obs+thr', OBS_TECH + ' | ' + THR_TECH, 'Single-threaded handle histories (clone/drop/downgrade/upgrade/into_shared) against the owner-count model; threads: every release order of 2-3 threads dropping / upgrading the last handles at shared_drop:decided and upgrade:between (complete schedule spaces of 8 programs), plus generated programs: stream ended <=> no owner survived.', THR_NOTE, 'DESIGN.md section 5, C03'),
 'C04': ('thr+obs', THR_TECH, 'Recorded invocation/response histories of 2-4 real threads (set, set_if_not_eq, update, get, read/write guard sections, next_now, polls, drops, upgrades) are checked for linearizability against a sequential register ending on the final value, for guard-interval exclusion and intra-guard stability; plus a real-time rule (a write completed between two events of a subscriber makes a Pending poll at the second a violation), three stress programs (2,500 write/poll pairs against handle churn, 200 executions each), single-threaded try_read/try_write refusal while guards are held, and 100k sequential histories judged by the sequential special case of the property on SharedObservable.', THR_NOTE, 'DESIGN.md section 5, C04'),
 'C16': ('obs+async', OBS_TECH + '; differential testing between flavours; hand-rolled executor for histories with guards held across calls', 'The same generated guard-free histories run on both flavours and must give identical transcripts (and equal the model); async-only histories run every async fn as a task of a single-threaded executor under a lock model: nothing completes under a write guard, no writer under a read guard, results equal the model in completion order, and nothing stays pending once no guard is held; owners are SharedObservable (clones, weak references, Default construction, bursts of up to 32 read guards) or a unique Observable; subscribers are cloned/reset and called (get, next_now, read, next_ref_now) also while a poll is outstanding; two finales (guards released first / owners dropped with subscriber-side permits outstanding). Known finding K4 is excluded by its exact trigger.', OBS_NOTE + ' The executor runs every woken task before judging anything stuck (tokio hands permits to queued waiters).', 'DESIGN.md section 5, C16'),
 'C19': ('obs', OBS_TECH, 'All four count functions are compared with the model after every call of generated handle histories, both flavours. Async flavour: subscriber_count/strong_count are accepted only if exact or exactly matching the listed known finding K3 (2 per live subscriber); anything else is a violation.', OBS_NOTE, 'DESIGN.md section 5, C19'),
})
CLAIMED = sorted(T)
checks = []
for p in props:
    pid = p['id']
    if pid not in T: continue
    eng, tech, text, note, ref = T[pid]
    checks.append({
        'property_id': pid,
        'quick_cmd': f'./check {pid} quick',
        'thorough_cmd': f'./check {pid} thorough',
        'evidence_file': f'/verif/evidence/{pid}.json',
        'replay_cmd_template': f'./check {pid} --replay {{path}}',
        'engine': eng,
        'level_claimed': {'category': 'exploration', 'text': text, 'design_ref': ref},
        'level_note': note,
        'technique': tech,
    })
na = [{'property_id': p['id'], 'reason': 'check under construction in this session (see DESIGN.md); not claimed until its engine is committed'} for p in props if p['id'] not in T]
hooks_commits = [l.strip() for l in open(os.path.join(HERE, 'tools', 'hook_commits.txt'))] if os.path.exists(os.path.join(HERE, 'tools', 'hook_commits.txt')) else []
m = {
 'version': 1,
 'setup_cmd': 'cd /verif/harness && CARGO_NET_OFFLINE=true cargo build --release --offline',
 'hooks': {
   'guard': '__verif_hooks',
   'enable': 'cargo feature `__verif_hooks` of crate `eyeball`; the harness crate (/verif/harness/Cargo.toml) depends on /repo/eyeball by path with features ["async-lock","__verif_hooks"], so every ./check build has the hooks on',
   'baseline_off_cmd': 'cd /repo && cargo test --workspace --no-fail-fast --offline',
   'source_commits': hooks_commits,
   'add_only': True,
 },
 'engines': [
   {'name': 'vec', 'path': 'harness/src/engine_vec.rs', 'serves_properties': ['C05','C06','C07','C08','C09','C10','C11','C12','C13','C14','C15','C17','C20'], 'kind_free_text': 'proptest state-machine style: generated VecCase histories interpreted against the real library and a plain-Vec model; taps at every adapter boundary; known-finding triggers excluded exactly'},
   {'name': 'obs', 'path': 'harness/src/engine_obs.rs', 'serves_properties': ['C01','C02','C03','C04','C16','C19'], 'kind_free_text': 'generated call histories on observables, both lock flavours, reference model, flag wakers'},
   {'name': 'async', 'path': 'harness/src/engine_async.rs', 'serves_properties': ['C01','C02','C03','C16','C20'], 'kind_free_text': 'async-lock flavour with guards held across calls, hand-rolled executor, lock model'},
   {'name': 'thr', 'path': 'harness/src/engine_thr.rs', 'serves_properties': ['C01','C02','C03','C04','C19'], 'kind_free_text': 'real threads: directed schedules at pause points (stateless DFS) and free-running rounds; history checkers'},
   {'name': 'zst', 'path': 'harness/src/engine_zst.rs', 'serves_properties': ['C01','C02','C03','C04'], 'kind_free_text': 'observables of a zero-sized value type (generated histories, notification-only model, optional wakers sharing one data pointer) and the value-shapes check of the conditional setters (byte strings, coarse equality, pointer-sized integers)'},
   {'name': 'zvec', 'path': 'harness/src/engine_zvec.rs', 'serves_properties': ['C05','C08','C09','C10','C11'], 'kind_free_text': 'ObservableVector of zero-sized elements through raw subscribers and fixed adapters: length / applicability / end-of-stream model'},
   {'name': 'pure', 'path': 'harness/src/engine_pure.rs', 'serves_properties': ['C18'], 'kind_free_text': 'proptest + bounded-exhaustive enumeration of (vector, diff, mapping) triples against a plain-Vec reference'},
 ],
 'checks': checks,
 'not_applicable': na,
 'notes': 'All checks: ./check <id> quick|thorough rebuilds the harness (cargo, path dependencies on /repo) and runs harness/target/release/evv. Exit 0 held / 1 VIOLATION / 2 inconclusive. VERIF_SEED selects the proptest seed.',
}
json.dump(m, open(os.path.join(HERE, 'MANIFEST.json'), 'w'), indent=1)
print('claimed', CLAIMED)
