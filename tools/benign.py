#!/usr/bin/env python3
"""False-alarm probes: apply each behaviour-changing but property-preserving diff from /verif/benign/ to an isolated
copy of /repo (tools/lane.sh K), run every quick check, expect exit 0 everywhere, revert.
  LANE=K python3 tools/benign.py [name ...]      results -> /verif/benign/results_<name>.json"""
import subprocess, sys, os, json, glob
def sh(cmd): return subprocess.run(cmd, shell=True, capture_output=True, text=True, executable='/bin/bash')
lane=os.environ['LANE']; REPO=f'/tmp/lane{lane}/repo'; VER=f'/tmp/lane{lane}/verif'
names=sys.argv[1:] or [os.path.basename(p)[:-5] for p in sorted(glob.glob('/verif/benign/*.diff'))]
props=[c['property_id'] for c in json.load(open('/verif/MANIFEST.json'))['checks']]
for n in names:
    assert sh(f'git -C {REPO} status --porcelain').stdout.strip()=='', f'{REPO} dirty'
    res={}
    try:
        r=sh(f'git -C {REPO} apply /verif/benign/{n}.diff'); assert r.returncode==0, r.stderr
        for p in props:
            r=sh(f'cd {VER} && VERIF_DIR={VER} ./check {p} quick')
            res[p]={0:'silent',1:'ALARM',2:'inconclusive'}.get(r.returncode,str(r.returncode))
            if r.returncode!=0:
                m=[l for l in r.stdout.splitlines() if l.startswith('  ') or 'VIOLATION' in l]
                res[p]+=': '+' | '.join(x.strip()[:300] for x in m[:2])
    finally:
        sh(f'git -C {REPO} checkout -- .')
    json.dump(res, open(f'/verif/benign/results_{n}.json','w'), indent=1)
    bad={k:v for k,v in res.items() if v!='silent'}
    print(n, 'all silent' if not bad else bad, flush=True)
