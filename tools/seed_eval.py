#!/usr/bin/env python3
"""Confirm and evaluate a seeded change produced by a sub-agent.
  seed_eval.py confirm <ID> <v>   in the scratch worktree /tmp/seed_<ID>: existing suite passes with the change, demo fails with it, passes without
  seed_eval.py run <ID> <v> [props...]   apply to /repo, run the quick checks (default: all claimed), revert, record into /verif/seeded/<ID>_<v>/meta.json
"""
import subprocess, sys, os, json, re, shutil
def sh(cmd, **kw): return subprocess.run(cmd, shell=True, capture_output=True, text=True, executable='/bin/bash', **kw)
def demo_path(demo):
    first = open(demo).readline()
    m = re.search(r'place at\s+(\S+)', first)
    return m.group(1) if m else None
def confirm(ID, v):
    rd=os.environ.get('ROUND','1')
    r=int(rd); sfx='' if r==1 else str(r)
    src=f'/tmp/seed_out{sfx}/{ID}/{v}'
    wt=f'/tmp/seed{sfx}_{ID}'
    k=2*(r-1)+(0 if v=='a' else 1)
    name=chr(ord('a')+k) if k<26 else 'b'+chr(ord('a')+k-26)
    out={}
    assert sh(f'git -C {wt} status --porcelain').stdout.strip()=='' , 'worktree dirty'
    rel=demo_path(f'{src}/demo.rs'); assert rel, 'no place-at comment'
    testname=os.path.basename(rel)[:-3]; crate=rel.split('/')[0]
    head=''.join(open(f'{src}/demo.rs').readlines()[:3]); fm=re.search(r'--features[ =](\S+)', head); feat=f' --features {fm.group(1)}' if fm else ''
    try:
        r=sh(f'git -C {wt} apply {src}/patch.diff'); assert r.returncode==0, r.stderr
        t=sh(f'cd {wt} && CARGO_NET_OFFLINE=true timeout -k 5 600 cargo test --workspace --no-fail-fast --offline 2>&1 | grep -E "^test result|^error"; echo rc=${{PIPESTATUS[0]}}').stdout
        out['suite_with_change']= 'pass' if ('FAILED' not in t and 'rc=0' in t and 'error' not in t) else 'FAIL: '+t[-300:]
        shutil.copy(f'{src}/demo.rs', f'{wt}/{rel}')
        d=sh(f'cd {wt} && CARGO_NET_OFFLINE=true timeout -k 5 600 cargo test -p {crate}{feat} --test {testname} --offline 2>&1 | tail -5; echo rc=${{PIPESTATUS[0]}}').stdout
        out['demo_with_change']='fails' if 'rc=0' not in d else 'PASSES(unexpected)'
        sh(f'git -C {wt} checkout -- .')
        d=sh(f'cd {wt} && CARGO_NET_OFFLINE=true timeout -k 5 600 cargo test -p {crate}{feat} --test {testname} --offline 2>&1 | tail -5; echo rc=${{PIPESTATUS[0]}}').stdout
        out['demo_without_change']='passes' if 'rc=0' in d else 'FAILS(unexpected): '+d[-300:]
    finally:
        sh(f'git -C {wt} checkout -- .'); 
        try: os.remove(f'{wt}/{rel}')
        except FileNotFoundError: pass
    dst=f'/verif/seeded/{ID}_{name}'; os.makedirs(dst, exist_ok=True)
    for f in ('patch.diff','demo.rs','README.md'):
        if os.path.exists(f'{src}/{f}'): shutil.copy(f'{src}/{f}', f'{dst}/{f}' if f!='README.md' else f'{dst}/AGENT_README.md')
    meta=json.load(open(f'{dst}/meta.json')) if os.path.exists(f'{dst}/meta.json') else {}
    meta.update({'id':f'{ID}_{name}','property':ID,'confirmed':out,'confirm_commands':[f'git apply patch.diff (scratch worktree {wt})','cargo test --workspace --no-fail-fast --offline',f'cargo test -p {crate} --test {testname} --offline (with and without the change)']})
    json.dump(meta, open(f'{dst}/meta.json','w'), indent=1)
    print(ID, v, out)
def run(ID, v, props):
    dst=f'/verif/seeded/{ID}_{v}'
    lane=os.environ.get('LANE')
    REPO=f'/tmp/lane{lane}/repo' if lane else '/repo'
    VER=f'/tmp/lane{lane}/verif' if lane else '/verif'
    assert sh(f'git -C {REPO} status --porcelain').stdout.strip()=='', f'{REPO} dirty'
    if not props:
        props=[c['property_id'] for c in json.load(open('/verif/MANIFEST.json'))['checks']]
    res={}
    try:
        r=sh(f'git -C {REPO} apply {dst}/patch.diff'); assert r.returncode==0, r.stderr
        for p in props:
            r=sh(f'cd {VER} && ' + (f'VERIF_DIR={VER}' if lane else 'VERIF_DIR=/tmp/vt_seed') + f' ./check {p} quick')
            res[p]={0:'missed',1:'CAUGHT',2:'inconclusive'}.get(r.returncode,str(r.returncode))
            if r.returncode==1:
                m=[l for l in r.stdout.splitlines() if l.startswith('  ')]
                res[p]+=': '+(m[0].strip()[:200] if m else '')
    finally:
        sh(f'git -C {REPO} checkout -- .')
    meta=json.load(open(f'{dst}/meta.json')) if os.path.exists(f'{dst}/meta.json') else {}
    allres=meta.get('quick_checks',{}); allres.update(res); res=allres
    meta['quick_checks']=res
    meta['caught_by']=sorted(p for p,v2 in res.items() if v2.startswith('CAUGHT'))
    meta['evaluated_at_repo_commit']=sh(f'git -C {REPO} rev-parse --short HEAD').stdout.strip()
    json.dump(meta, open(f'{dst}/meta.json','w'), indent=1)
    print(ID, v, 'caught by', meta['caught_by'], '| target', ID, res.get(ID))
if __name__=='__main__':
    cmd, ID, v = sys.argv[1:4]
    os.makedirs('/tmp/vt_seed', exist_ok=True)
    if not os.path.exists('/tmp/vt_seed/KNOWN_FINDINGS.txt'):
        pass
    (confirm if cmd=='confirm' else lambda a,b: run(a,b,sys.argv[4:]))(ID, v)
