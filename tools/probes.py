#!/usr/bin/env python3
"""Sensitivity probes: deliberate one-line breaks of /repo, each of which must be caught by the named checks.
Usage: tools/probes.py [name-substring ...]   (applies each mutant to /repo's working tree, runs the quick checks, reverts)
Mutants are string replacements so they survive small upstream changes; each is also saved as probes/<name>.diff."""
import subprocess, sys, os, json
REPO='/repo'
M = [
 # name, file, old, new, expected-to-catch
 ('vec_insert_index_plus1','eyeball-im/src/vector.rs','self.broadcast_diff(VectorDiff::Insert { index, value });','self.broadcast_diff(VectorDiff::Insert { index: index + (index > 2) as usize, value });',['C05']),
 ('vec_clear_no_guard','eyeball-im/src/vector.rs','        if !already_empty {\n            self.values.clear();','        {\n            self.values.clear();',['C05']),
 ('vec_pop_back_returns_front','eyeball-im/src/vector.rs','        let value = self.values.pop_back();\n        if value.is_some() {\n            #[cfg(feature = "tracing")]\n            tracing::debug!(target: "eyeball_im::vector::update", "pop_back");','        let value = if self.values.len() > 3 { let v = self.values.front().cloned(); self.values.pop_back(); v } else { self.values.pop_back() };\n        if value.is_some() {\n            #[cfg(feature = "tracing")]\n            tracing::debug!(target: "eyeball_im::vector::update", "pop_back");',['C17']),
 ('vec_set_bound_le','eyeball-im/src/vector.rs','    pub fn set(&mut self, index: usize, value: T) -> T {\n        let len = self.values.len();\n        if index < len {','    pub fn set(&mut self, index: usize, value: T) -> T {\n        let len = self.values.len();\n        if index < len || (index == len && len > 0 && { self.values.push_back(value.clone()); true }) {',['C17']),
 ('entry_remove_advances','eyeball-im/src/vector/entry.rs','        this.inner.remove(this.index.make_owned())','        this.inner.remove(this.index.value())',['C17']),
 ('many_unpacked_reverse','eyeball-im/src/vector/subscriber.rs','                            let mut iter = diffs.into_iter();','                            let mut diffs = diffs; if diffs.len() > 2 { diffs.swap(1, 2); }\n                            let mut iter = diffs.into_iter();',['C05','C07']),
 ('handle_lag_first_msg','eyeball-im/src/vector/subscriber.rs','            Ok(m) => {\n                msg = Some(m);\n            }','            Ok(m) => {\n                if msg.is_none() { msg = Some(m); }\n            }',['C06']),
 ('txn_rollback_keeps_batch','eyeball-im/src/vector/transaction.rs','        self.values = self.inner.values.clone();\n        self.batch.clear();','        self.values = self.inner.values.clone();',['C07']),
 ('txn_drop_commits','eyeball-im/src/vector/transaction.rs','    fn drop(&mut self) {\n        #[cfg(feature = "tracing")]\n        if !self.batch.is_empty() {','    fn drop(&mut self) {\n        if self.batch.len() > 3 { self.inner.values = self.values.clone(); }\n        #[cfg(feature = "tracing")]\n        if !self.batch.is_empty() {',['C07']),
 ('batched_none_on_closed_with_batch','eyeball-im/src/vector/subscriber.rs','                        Err(TryRecvError::Empty | TryRecvError::Closed) => {\n                            break Poll::Ready(Some(batch));','                        Err(TryRecvError::Closed) => break Poll::Ready(None),\n                        Err(TryRecvError::Empty) => {\n                            break Poll::Ready(Some(batch));',['C08']),
 ('revert_F2','eyeball-im/src/vector/subscriber.rs','                return msg.map(|msg| msg.state);','                return None;',['C08']),
 ('revert_F3','eyeball-im-util/src/vector/tail.rs','index: if is_full { index - index_of_limit - 1 } else { index },','index: (index - index_of_limit).saturating_sub(1),',['C09']),
 ('revert_F4','eyeball-im-util/src/vector/filter.rs','Some(VectorDiff::Reset { values: self.append_filter(values, f).unwrap_or_default() })','self.append_filter(values, f).map(|values| VectorDiff::Reset { values })',['C10']),
 ('revert_F5_head','eyeball-im-util/src/vector/head.rs','        values.truncate(self.limit);\n        (values, self)','        (values, self)',['C12']),
 ('head_index_gt_limit','eyeball-im-util/src/vector/head.rs','        VectorDiff::Insert { index, value } => {\n            if index >= limit {','        VectorDiff::Insert { index, value } => {\n            if index > limit {',['C09','C15']),
 ('skip_prevlen_gt','eyeball-im-util/src/vector/skip.rs','        VectorDiff::PushBack { value } => {\n            // The push happens after `count`.\n            if previous_length >= count {','        VectorDiff::PushBack { value } => {\n            // The push happens after `count`.\n            if previous_length > count {',['C09']),
 ('tail_popback_refill','eyeball-im-util/src/vector/tail.rs','                if let Some(diff) = buffered_vector.get(index_of_limit.saturating_sub(1)) {\n                    // There is a previously-truncated item, push front.\n                    res.push(VectorDiff::PushFront { value: diff.clone() });\n                }\n            }\n        }\n\n        VectorDiff::Insert','                if let Some(diff) = buffered_vector.get(index_of_limit) {\n                    // There is a previously-truncated item, push front.\n                    res.push(VectorDiff::PushFront { value: diff.clone() });\n                }\n            }\n        }\n\n        VectorDiff::Insert',['C09']),
 ('head_pushfront_order','eyeball-im-util/src/vector/head.rs','        VectorDiff::PushFront { value } => {\n            if is_full {\n                // Create 1 free space.\n                res.push(VectorDiff::PopBack);\n            }\n\n            // There is space for this new item.\n            res.push(VectorDiff::PushFront { value });','        VectorDiff::PushFront { value } => {\n            res.push(VectorDiff::PushFront { value });\n            if is_full {\n                res.push(VectorDiff::PopBack);\n            }',['C15']),
 ('filter_remove_no_shift','eyeball-im-util/src/vector/filter.rs','        for idx in self.filtered_indices.iter_mut().skip(index) {\n            *idx -= 1;\n        }\n\n        result\n    }\n\n    fn handle_truncate','        for idx in self.filtered_indices.iter_mut().skip(index + 1) {\n            *idx -= 1;\n        }\n\n        result\n    }\n\n    fn handle_truncate',['C10']),
 ('filter_partition_le','eyeball-im-util/src/vector/filter.rs','        let index = self.filtered_indices.partition_point(|&i| i < original_idx);\n        for idx in self.filtered_indices.iter_mut().skip(index) {\n            *idx += 1;','        let index = self.filtered_indices.partition_point(|&i| i <= original_idx);\n        for idx in self.filtered_indices.iter_mut().skip(index) {\n            *idx += 1;',['C10']),
 ('sort_set_no_minus1','eyeball-im-util/src/vector/sort.rs','                    let new_index = new_index - 1;\n                    let new_unsorted_index_with_value','                    let new_index = new_index - (new_index < 3) as usize;\n                    let new_unsorted_index_with_value',['C11']),
 ('sort_popfront_no_shift','eyeball-im-util/src/vector/sort.rs','                    else {\n                        *unsorted_index -= 1;\n                    }\n\n                    position','                    else if *unsorted_index != 2 {\n                        *unsorted_index -= 1;\n                    }\n\n                    position',['C11']),
 ('vecbatch_keep_empty','eyeball-im-util/src/vector/ops.rs','        let res: Vec<_> = self.into_iter().filter_map(f).collect();\n\n        if res.is_empty() {\n            None','        let res: Vec<_> = self.into_iter().filter_map(f).collect();\n\n        if false {\n            None',['C13']),
 ('head_limit_noop_ctx','eyeball-im-util/src/vector/head.rs','            while let Poll::Ready(Some(next_limit)) = self.limit_stream.as_mut().poll_next(cx) {','            while let Poll::Ready(Some(next_limit)) = self.limit_stream.as_mut().poll_next(&mut task::Context::from_waker(&noop_waker())) {',['C14']),
 ('into_parts_skip_revert','eyeball-im-util/src/vector/skip.rs','            None => Vector::new(),\n        };\n        (values, self)','            None => self.buffered_vector.clone(),\n        };\n        (values, self)',['C12']),
 ('obs_poll_le','eyeball/src/state.rs','} else if *observed_version < metadata.version {','} else if *observed_version <= metadata.version && metadata.version > 3 || *observed_version < metadata.version {',['C01']),
 ('obs_subscribe_version0','eyeball/src/unique.rs','        Subscriber::new(Shared::get_read_lock(&this.state), this.state.version())','        Subscriber::new(Shared::get_read_lock(&this.state), this.state.version().saturating_sub((this.state.version() > 2) as u64))',['C01']),
 ('obs_set_if_not_eq_inverted','eyeball/src/state.rs','        if self.value != value {\n            Some(self.set(value))','        if !(self.value != value) {\n            Some(self.set(value))',['C01']),
 ('obs_next_now_no_store','eyeball/src/subscriber.rs','        let lock = self.state.lock();\n        self.observed_version = lock.version();\n        lock.get().clone()','        let lock = self.state.lock();\n        lock.get().clone()',['C01']),
 ('obs_update_if_always','eyeball/src/state.rs','        if f(&mut self.value) {\n            self.incr_version_and_wake();','        if f(&mut self.value) || true {\n            self.incr_version_and_wake();',['C01']),
 ('obs_hash_uses_eq','eyeball/src/state.rs','        if hash(&self.value) != hash(&value) {','        if self.value_differs(&value) {',['C01']),
 ('obs_wake_only_last','eyeball/src/state.rs','        wake(metadata.wakers.drain(..));','        if let Some(w) = metadata.wakers.pop() { w.wake(); }\n        metadata.wakers.clear();',['C02']),
 ('obs_close_no_wake','eyeball/src/state.rs','        wake(mem::take(&mut metadata.wakers));','        drop(mem::take(&mut metadata.wakers));',['C02','C03']),
 ('obs_unique_drop_no_close','eyeball/src/unique.rs','    fn drop(&mut self) {\n        self.state.close();','    fn drop(&mut self) {\n        if false { self.state.close(); }',['C03']),
 ('obs_into_shared_closes','eyeball/src/unique.rs','        let state = unsafe { ptr::read(&this.state) };\n        mem::forget(this);','        this.state.close();\n        let state = unsafe { ptr::read(&this.state) };\n        mem::forget(this);',['C03']),
 ('obs_clone_fresh_counter','eyeball/src/shared.rs','        Self { state: self.state.clone(), _num_clones: self._num_clones.clone() }\n    }\n}\n\nimpl<T, L: Lock> fmt::Debug for SharedObservable','        Self { state: self.state.clone(), _num_clones: Arc::new(()) }\n    }\n}\n\nimpl<T, L: Lock> fmt::Debug for SharedObservable',['C03','C19']),
 ('obs_async_sub_version0','eyeball/src/subscriber/async_lock.rs','        Self { state: AsyncSubscriberState { inner, get_lock }, observed_version: version }','        Self { state: AsyncSubscriberState { inner, get_lock }, observed_version: version.saturating_sub(1) }',['C16']),
 ('obs_async_clone_reset_keeps','eyeball/src/subscriber.rs','        Self { state: self.state.clone(), observed_version: 0 }','        Self { state: self.state.clone(), observed_version: self.observed_version / 2 }',['C01','C16']),
 ('obs_weak_count_strong','eyeball/src/shared.rs','        Arc::weak_count(&self.state)','        Arc::weak_count(&self._num_clones)',['C19']),
]
EXTRA = {'obs_hash_uses_eq': ('eyeball/src/state.rs','impl<T> ObservableState<T> {\n    pub(crate) fn new','impl<T: Hash> ObservableState<T> {\n    fn value_differs(&self, v: &T) -> bool { let (a, b) = (hash(&self.value), hash(v)); a != b && a.wrapping_add(1) != b.wrapping_mul(1) || a != b }\n}\nimpl<T> ObservableState<T> {\n    pub(crate) fn new'),
 'head_limit_noop_ctx': ('eyeball-im-util/src/vector/head.rs','use pin_project_lite::pin_project;','use pin_project_lite::pin_project;\nfn noop_waker() -> std::task::Waker { use std::task::{RawWaker, RawWakerVTable, Waker}; fn c(_: *const ()) -> RawWaker { RawWaker::new(std::ptr::null(), &VT) } fn n(_: *const ()) {} static VT: RawWakerVTable = RawWakerVTable::new(c, n, n, n); unsafe { Waker::from_raw(RawWaker::new(std::ptr::null(), &VT)) } }')}

def sh(cmd, **kw): return subprocess.run(cmd, shell=True, capture_output=True, text=True, **kw)
def main():
    sel = sys.argv[1:]
    if sh('git -C /repo status --porcelain').stdout.strip():
        print('refusing: /repo working tree is dirty'); sys.exit(2)
    results = {}
    for name, f, old, new, props in M:
        if sel and not any(s in name for s in sel): continue
        path = os.path.join(REPO, f); src = open(path).read()
        if src.count(old) != 1:
            print(f'{name}: pattern matches {src.count(old)} times, skipped'); results[name]='SKIPPED'; continue
        try:
            open(path,'w').write(src.replace(old,new))
            if name in EXTRA:
                ef, eo, en = EXTRA[name]; p2=os.path.join(REPO,ef); s2=open(p2).read(); open(p2,'w').write(s2.replace(eo,en,1))
            open(f'/verif/probes/{name}.diff','w').write(sh('git -C /repo diff').stdout)
            t = sh('cd /repo && timeout -k 5 180 cargo test --workspace --no-fail-fast --offline 2>&1 | grep -E "^test result|error(\\[|:)"; echo "rc=${PIPESTATUS[0]}"', executable='/bin/bash').stdout
            tests_ok = 'FAILED' not in t and 'error' not in t and 'rc=0' in t
            sh('pkill -9 -f /repo/target/debug/deps/')
            line = []
            for p in props:
                r = sh(f'cd /verif && VERIF_DIR=/tmp/vt_probe ./check {p} quick')
                verdict = {0:'missed',1:'CAUGHT',2:'inconclusive'}.get(r.returncode, str(r.returncode))
                line.append(f'{p}:{verdict}')
                if r.returncode == 2: line.append((r.stdout+r.stderr)[-300:])
            results[name] = (tests_ok, line)
            print(f'{name}: repo tests {"pass" if tests_ok else "FAIL"}; ' + ' '.join(line), flush=True)
        finally:
            sh('git -C /repo checkout -- .')
    json.dump(results, open('/verif/probes/last_results.json','w'), indent=1)
main()
