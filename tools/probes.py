#!/usr/bin/env python3
"""Sensitivity probes: deliberate one-line breaks of /repo, each of which must be caught by the named checks.
Usage: tools/probes.py [name-substring ...]   (applies each mutant to /repo's working tree, runs the quick checks, reverts)
Mutants are string replacements so they survive small upstream changes; each is also saved as probes/<name>.diff."""
import subprocess, sys, os, json
REPO='/repo'
M = [
 # name, file, old, new, expected-to-catch
 ('vec_insert_index_plus1','eyeball-im/src/vector.rs','self.broadcast_diff(VectorDiff::Insert { index, value });','self.broadcast_diff(VectorDiff::Insert { index: index + (index > 2) as usize, value });',['C05']),
 ('vec_clear_no_guard','eyeball-im/src/vector.rs','        if !already_empty {\n            self.values.clear();','        {\n            self.values.clear();',['C05']),
 ('vec_pop_back_returns_front','eyeball-im/src/vector.rs','        let value = self.values.pop_back();\n        if value.is_some() {\n            #[cfg(feature = "tracing")]\n            tracing::debug!(target: "eyeball_im::vector::update", "pop_back");','        let value = if self.values.len() > 3 { let v = self.values.front().cloned(); self.values.pop_back(); v } else { self.values.pop_back() };\n        if value.is_some() {\n            #[cfg(feature = "tracing")]\n            tracing::debug!(target: "eyeball_im::vector::update", "pop_back");',['C17']),
 ('vec_set_bound_le','eyeball-im/src/vector.rs','    pub fn set(&mut self, index: usize, value: T) -> T {\n        let len = self.values.len();\n        if index < len {','    pub fn set(&mut self, index: usize, value: T) -> T {\n        let len = self.values.len();\n        if index < len || (index == len && len > 0 && { self.values.push_back(value.clone()); true }) {',['C17']),
 ('entry_remove_advances','eyeball-im/src/vector/entry.rs','        this.inner.remove(this.index.make_owned())','        this.inner.remove(this.index.value())',['C17']),
 ('many_unpacked_reverse','eyeball-im/src/vector/subscriber.rs','                            let mut iter = diffs.into_iter();','                            let mut diffs = diffs; if diffs.len() > 2 { diffs.swap(1, 2); }\n                            let mut iter = diffs.into_iter();',['C05','C07']),
 ('handle_lag_first_msg','eyeball-im/src/vector/subscriber.rs','            Ok(m) => {\n                msg = Some(m);\n            }','            Ok(m) => {\n                if msg.is_none() { msg = Some(m); }\n            }',['C06']),
 ('txn_rollback_keeps_batch','eyeball-im/src/vector/transaction.rs','        self.values = self.inner.values.clone();\n        self.batch.clear();','        self.values = self.inner.values.clone();',['C07']),
 ('txn_drop_commits','eyeball-im/src/vector/transaction.rs','    fn drop(&mut self) {\n        #[cfg(feature = "tracing")]\n        if !self.batch.is_empty() {','    fn drop(&mut self) {\n        if self.batch.len() > 3 { self.inner.values = self.values.clone(); }\n        #[cfg(feature = "tracing")]\n        if !self.batch.is_empty() {',['C07']),
 ('batched_none_on_closed_with_batch','eyeball-im/src/vector/subscriber.rs','                        Err(TryRecvError::Empty | TryRecvError::Closed) => {\n                            break Poll::Ready(Some(batch));','                        Err(TryRecvError::Closed) => break Poll::Ready(None),\n                        Err(TryRecvError::Empty) => {\n                            break Poll::Ready(Some(batch));',['C08']),
 ('revert_F2','eyeball-im/src/vector/subscriber.rs','                return msg.map(|msg| msg.state);','                return None;',['C08']),
 ('revert_F3','eyeball-im-util/src/vector/tail.rs','index: if is_full { index - index_of_limit - 1 } else { index },','index: (index - index_of_limit).saturating_sub(1),',['C09']),
 ('revert_F4','eyeball-im-util/src/vector/filter.rs','Some(VectorDiff::Reset { values: self.append_filter(values, f).unwrap_or_default() })','self.append_filter(values, f).map(|values| VectorDiff::Reset { values })',['C10']),
 ('revert_F5_head','eyeball-im-util/src/vector/head.rs','        values.truncate(self.limit);\n        (values, self)','        (values, self)',['C12']),
 ('head_index_gt_limit','eyeball-im-util/src/vector/head.rs','        VectorDiff::Insert { index, value } => {\n            if index >= limit {','        VectorDiff::Insert { index, value } => {\n            if index > limit {',['C09','C15']),
 ('skip_prevlen_gt','eyeball-im-util/src/vector/skip.rs','        VectorDiff::PushBack { value } => {\n            // The push happens after `count`.\n            if previous_length >= count {','        VectorDiff::PushBack { value } => {\n            // The push happens after `count`.\n            if previous_length > count {',['C09']),
 ('tail_popback_refill','eyeball-im-util/src/vector/tail.rs','                if let Some(diff) = buffered_vector.get(index_of_limit.saturating_sub(1)) {\n                    // There is a previously-truncated item, push front.\n                    res.push(VectorDiff::PushFront { value: diff.clone() });\n                }\n            }\n        }\n\n        VectorDiff::Insert','                if let Some(diff) = buffered_vector.get(index_of_limit) {\n                    // There is a previously-truncated item, push front.\n                    res.push(VectorDiff::PushFront { value: diff.clone() });\n                }\n            }\n        }\n\n        VectorDiff::Insert',['C09']),
 ('head_pushfront_order','eyeball-im-util/src/vector/head.rs','        VectorDiff::PushFront { value } => {\n            if is_full {\n                // Create 1 free space.\n                res.push(VectorDiff::PopBack);\n            }\n\n            // There is space for this new item.\n            res.push(VectorDiff::PushFront { value });','        VectorDiff::PushFront { value } => {\n            res.push(VectorDiff::PushFront { value });\n            if is_full {\n                res.push(VectorDiff::PopBack);\n            }',['C15']),
 ('filter_remove_no_shift','eyeball-im-util/src/vector/filter.rs','        for idx in self.filtered_indices.iter_mut().skip(index) {\n            *idx -= 1;\n        }\n\n        result\n    }\n\n    fn handle_truncate','        for idx in self.filtered_indices.iter_mut().skip(index + 1) {\n            *idx -= 1;\n        }\n\n        result\n    }\n\n    fn handle_truncate',['C10']),
 ('filter_partition_le','eyeball-im-util/src/vector/filter.rs','        let index = self.filtered_indices.partition_point(|&i| i < original_idx);\n        for idx in self.filtered_indices.iter_mut().skip(index) {\n            *idx += 1;','        let index = self.filtered_indices.partition_point(|&i| i <= original_idx);\n        for idx in self.filtered_indices.iter_mut().skip(index) {\n            *idx += 1;',['C10']),
 ('sort_set_no_minus1','eyeball-im-util/src/vector/sort.rs','                    let new_index = new_index - 1;\n                    let new_unsorted_index_with_value','                    let new_index = new_index - (new_index < 3) as usize;\n                    let new_unsorted_index_with_value',['C11']),
 ('sort_popfront_no_shift','eyeball-im-util/src/vector/sort.rs','                    else {\n                        *unsorted_index -= 1;\n                    }\n\n                    position','                    else if *unsorted_index != 2 {\n                        *unsorted_index -= 1;\n                    }\n\n                    position',['C11']),
 ('vecbatch_keep_empty','eyeball-im-util/src/vector/ops.rs','        let res: Vec<_> = self.into_iter().filter_map(f).collect();\n\n        if res.is_empty() {\n            None','        let res: Vec<_> = self.into_iter().filter_map(f).collect();\n\n        if false {\n            None',['C13']),
 ('head_limit_noop_ctx','eyeball-im-util/src/vector/head.rs','            while let Poll::Ready(Some(next_limit)) = self.limit_stream.as_mut().poll_next(cx) {','            while let Poll::Ready(Some(next_limit)) = self.limit_stream.as_mut().poll_next(&mut task::Context::from_waker(&noop_waker())) {',['C14']),
 ('into_parts_skip_revert','eyeball-im-util/src/vector/skip.rs','            None => Vector::new(),\n        };\n        (values, self)','            None => self.buffered_vector.clone(),\n        };\n        (values, self)',['C12']),
]
EXTRA = {'head_limit_noop_ctx': ('eyeball-im-util/src/vector/head.rs','use pin_project_lite::pin_project;','use pin_project_lite::pin_project;\nfn noop_waker() -> std::task::Waker { use std::task::{RawWaker, RawWakerVTable, Waker}; fn c(_: *const ()) -> RawWaker { RawWaker::new(std::ptr::null(), &VT) } fn n(_: *const ()) {} static VT: RawWakerVTable = RawWakerVTable::new(c, n, n, n); unsafe { Waker::from_raw(RawWaker::new(std::ptr::null(), &VT)) } }')}

def sh(cmd, **kw): return subprocess.run(cmd, shell=True, capture_output=True, text=True, **kw)
def main():
    sel = sys.argv[1:]
    if sh('git -C /repo status --porcelain').stdout.strip():
        print('refusing: /repo working tree is dirty'); sys.exit(2)
    results = {}
    for name, f, old, new, props in M:
        if sel and not any(s in name for s in sel): continue
        path = os.path.join(REPO, f); src = open(path).read()
        if src.count(old) != 1:
            print(f'{name}: pattern matches {src.count(old)} times, skipped'); results[name]='SKIPPED'; continue
        try:
            open(path,'w').write(src.replace(old,new))
            if name in EXTRA:
                ef, eo, en = EXTRA[name]; p2=os.path.join(REPO,ef); s2=open(p2).read(); open(p2,'w').write(s2.replace(eo,en,1))
            open(f'/verif/probes/{name}.diff','w').write(sh('git -C /repo diff').stdout)
            t = sh('cd /repo && cargo test --workspace --no-fail-fast --offline 2>&1 | grep -E "^test result|error(\\[|:)"').stdout
            tests_ok = 'FAILED' not in t and 'error' not in t
            line = []
            for p in props:
                r = sh(f'cd /verif && VERIF_DIR=/tmp/vt_probe ./check {p} quick')
                verdict = {0:'missed',1:'CAUGHT',2:'inconclusive'}.get(r.returncode, str(r.returncode))
                line.append(f'{p}:{verdict}')
                if r.returncode == 2: line.append((r.stdout+r.stderr)[-300:])
            results[name] = (tests_ok, line)
            print(f'{name}: repo tests {"pass" if tests_ok else "FAIL"}; ' + ' '.join(line), flush=True)
        finally:
            sh('git -C /repo checkout -- .')
    json.dump(results, open('/verif/probes/last_results.json','w'), indent=1)
main()
