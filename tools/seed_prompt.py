#!/usr/bin/env python3
"""Write the prompt for a seeding sub-agent: seed_prompt.py <round> <ID>  -> /tmp/seed_out<round>/prompt_<ID>.txt
The prompt contains only the property's text and the one-line summaries of earlier seeds (so that ideas are not
repeated); nothing about /verif's checks."""
import json, sys, os, glob
rd, ID = sys.argv[1], sys.argv[2]
prop=[json.loads(l) for l in open('/verif/properties.jsonl') if json.loads(l)['id']==ID][0]
q=prop['quantifier']; qt=q['text'] if isinstance(q,dict) else str(q)
taken=[]
for m in sorted(glob.glob(f'/verif/seeded/{ID}_*/meta.json')):
    d=json.load(open(m))
    if d.get('what'): taken.append(' - '+d['what'])
wt=f'/tmp/seed{rd}_{ID}'; out=f'/tmp/seed_out{rd}/{ID}'
txt=f'''You are helping to evaluate a verification harness by producing realistic, subtle bugs ("seeded changes") in the Rust library jplatte/eyeball (crates eyeball, eyeball-im, eyeball-im-util). You work ONLY inside your own scratch git worktree at {wt} (a checkout of the library). Do NOT read or touch /verif or /repo, and do not look for any existing verification code; what you write must be independent.

The semantic property you must break is:

{ID}: {prop['title']}

STATEMENT: {prop['statement']}

QUANTIFIED OVER: {qt}

This is a later round. Ideas already used by earlier seeders for this property (do NOT repeat them or close variants; look for genuinely different mechanisms, other entry points or flavours, other return paths, unusual configurations, or two cooperating edits that each look harmless). Make sure the change violates THIS property's statement (not merely a neighbouring concern such as wake-ups when the statement is about values):
{chr(10).join(taken)}


TASK: produce TWO different changes (call them a and b) to the library source, each of which
 1. still compiles (cargo build --workspace --offline) and still passes the complete existing test suite: run `cd {wt} && CARGO_NET_OFFLINE=true cargo test --workspace --no-fail-fast --offline` and confirm 0 failures (the sandbox has no network; never try to fetch crates; dev-dependencies already available: futures-util, futures-executor, stream_assert, tokio with macros+rt, assert_matches, imbl);
 2. makes the library violate the property above for SOME inputs/histories/schedules;
 3. is NOT exposed by ordinary use at once: it must need something specific to manifest, e.g. a particular multi-step sequence of operations, an unusual input (a particular length/limit/index relation, ties, empty vector, capacity boundary), a particular poll interleaving, or two cooperating sites that each look fine alone. Prefer changes that look like plausible refactoring slips or "optimisations" a maintainer could make (off-by-one in a boundary condition that only matters in one configuration, a dropped re-registration on one return path, a stale cached length, a wrong branch for one diff kind under one condition). Do not make trivial always-wrong changes, and do not touch test files, the `__verif_hooks` feature lines or Cargo features.
 The two changes should be in different functions/mechanisms.

For each change write a demonstration: a Rust integration test file (one #[test] or #[tokio::test]... a plain #[test] polling streams with futures_util / stream_assert or a hand-rolled waker is fine) that FAILS with the change applied and PASSES on the unmodified library. Simplest is a new file like eyeball-im-util/tests/seed_demo_a.rs (new top-level test files are auto-discovered by cargo; use the crate the change lives in or the one whose API shows it). Verify both directions yourself (stash/unstash the library change).

DELIVERABLES (write them under {out}/a/ and {out}/b/):
  - patch.diff : output of `git diff` for the LIBRARY change only (no demo file inside), applicable with `git apply` on a clean checkout;
  - demo.rs    : the demonstration test file, plus a first-line comment saying where to place it (e.g. // place at eyeball-im-util/tests/seed_demo_a.rs) and which command runs it (if it needs a cargo feature, put `--features <name>` in that first-line command);
  - README.md  : 5-10 lines: what was changed, why existing tests still pass, exactly what is needed for the bug to manifest (the specific history/input/schedule), and the commands you ran with their results (existing suite passes with change; demo fails with change; demo passes without).
When done, leave the worktree clean of your library change (git checkout -- . and remove the demo files; you may leave build output) and reply with a short summary of both changes (for each: one line WHAT was changed, one line what it NEEDS to manifest).
Keep build output inside your worktree (default target dir). Work efficiently; the codebase is small (~6k lines). Start by reading the relevant source files.
'''
os.makedirs(out+'/a',exist_ok=True); os.makedirs(out+'/b',exist_ok=True)
open(f'/tmp/seed_out{rd}/prompt_{ID}.txt','w').write(txt)
print(f'/tmp/seed_out{rd}/prompt_{ID}.txt', len(taken),'taken')
