#!/usr/bin/env python3
"""Print the markdown table of seeded changes (from seeded/*/meta.json + a one-line description file)."""
import json, glob, os
rows=[]
for d in sorted(glob.glob('/verif/seeded/*/')):
    m=json.load(open(d+'meta.json')) if os.path.exists(d+'meta.json') else {}
    desc=m.get('what','')
    tgt=m.get('property','')
    qc=m.get('quick_checks',{})
    caught=m.get('caught_by',[])
    t=qc.get(tgt,'not run')
    rows.append(f"| {m.get('id',os.path.basename(d[:-1]))} | {desc} | {m.get('needs','')} | {'**yes**' if t.startswith('CAUGHT') else t.split(':')[0]} | {', '.join(caught)} |")
print("| seed | change (written by an independent sub-agent) | needs, in order to manifest | caught by the check of its own property | all quick checks that raise a VIOLATION |")
print("|---|---|---|---|---|")
print("\n".join(rows))
