#!/bin/bash
# lane.sh <K>: (re)create an isolated copy of /repo (HEAD worktree) and of the /verif machinery under /tmp/lane<K>,
# so that seeded changes can be evaluated in parallel without touching /repo. Remove with: lane.sh <K> rm
set -e
K=$1; L=/tmp/lane$K
if [ "$2" = rm ]; then git -C /repo worktree remove --force $L/repo 2>/dev/null || true; rm -rf $L; git -C /repo worktree prune; exit 0; fi
mkdir -p $L/verif
[ -d $L/repo ] || git -C /repo worktree add --detach $L/repo HEAD -q
git -C $L/repo checkout -q --detach $(git -C /repo rev-parse HEAD); git -C $L/repo checkout -- .
cp /repo/Cargo.lock $L/repo/ 2>/dev/null || true
rsync -a --delete --exclude target /verif/harness/ $L/verif/harness/ --exclude target
sed -i "s#/repo/#$L/repo/#g" $L/verif/harness/Cargo.toml
cp /verif/check /verif/KNOWN_FINDINGS.txt $L/verif/
rsync -a --delete /verif/replays/regress /verif/replays/known $L/verif/replays/
echo "lane $K ready at $L"
