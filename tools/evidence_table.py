#!/usr/bin/env python3
"""Markdown table of what each check's last run covered (from evidence/*.json)."""
import json, glob
print("| property | tier | evaluations | distinct non-trivial | phases (evaluations) | exhaustive sub-spaces | wall s |")
print("|---|---|---|---|---|---|---|")
for f in sorted(glob.glob('/verif/evidence/C*.json')):
    d=json.load(open(f)); c=d['coverage']
    ph='; '.join(f"{p['phase']} ({p['evaluations']})" for p in c['phases'])
    ex=len(c.get('exhaustive_subspaces',[]))
    extra=f" +{c['thread_executions_judged']} thread executions" if c.get('thread_executions_judged') else ''
    print(f"| {d['property_id']} | {d['tier']} | {c['evaluations']}{extra} | {c['distinct_nontrivial']} | {ph} | {ex} | {d['wall_s']:.1f} |")
